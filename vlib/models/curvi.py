"""Symbolic derivation of differential operators in symmetric curvilinear coordinates.

Independent of the package: every operator is *defined in Cartesian coordinates*
(grad_i = d_i s, div = d_i v_i, (grad v)_ij = d_j v_i, (div T)_i = d_j T_ij, ...) and
pushed through the chain rule for fields whose local components depend only on the
non-symmetric coordinates (r for polar/spherical, (r, z) for cylindrical grids).  The result
is, per (coordinate system, operator), a list of linear terms

    out[k]  +=  coeff(r, z) * d^a/dr^a d^b/dz^b  in[m]

from which both the *continuum value* for closed-form component functions and the
*documented central-difference stencil* (coefficient at the cell centre times the central
difference of that order) are obtained.

Component order follows the grid: axes first, then symmetric axes — (r, phi) polar,
(r, theta, phi) spherical, (r, z, phi) cylindrical.
"""

from __future__ import annotations

import itertools
import json
import os
from pathlib import Path

CACHE = Path(__file__).resolve().parent / "_curvi_cache.json"
SYSTEMS = ("polar", "spherical", "cylindrical")
OPERATORS = {
    # name: (rank_in, rank_out)
    "laplace": (0, 0),
    "gradient": (0, 1),
    "divergence": (1, 0),
    "vector_gradient": (1, 2),
    "vector_laplace": (1, 1),
    "tensor_divergence": (2, 1),
    "tensor_double_divergence": (2, 0),
}
ORDERS = [(0, 0), (1, 0), (2, 0), (0, 1), (0, 2), (1, 1)]


def _system(name: str):
    import sympy as sp

    r = sp.Symbol("r", positive=True)
    z = sp.Symbol("z", real=True)
    th = sp.Symbol("theta", positive=True)
    ph = sp.Symbol("phi", real=True)
    if name == "polar":
        q = [r, ph]
        x = sp.Matrix([r * sp.cos(ph), r * sp.sin(ph)])
        basis = [sp.Matrix([sp.cos(ph), sp.sin(ph)]), sp.Matrix([-sp.sin(ph), sp.cos(ph)])]
        free = [r]
        fix = {ph: 0}
    elif name == "spherical":
        q = [r, th, ph]
        x = sp.Matrix([r * sp.sin(th) * sp.cos(ph), r * sp.sin(th) * sp.sin(ph), r * sp.cos(th)])
        e_r = sp.Matrix([sp.sin(th) * sp.cos(ph), sp.sin(th) * sp.sin(ph), sp.cos(th)])
        e_t = sp.Matrix([sp.cos(th) * sp.cos(ph), sp.cos(th) * sp.sin(ph), -sp.sin(th)])
        e_p = sp.Matrix([-sp.sin(ph), sp.cos(ph), 0])
        basis = [e_r, e_t, e_p]
        free = [r]
        fix = {ph: 0, th: sp.pi / 2}
    elif name == "cylindrical":
        q = [r, ph, z]
        x = sp.Matrix([r * sp.cos(ph), r * sp.sin(ph), z])
        e_r = sp.Matrix([sp.cos(ph), sp.sin(ph), 0])
        e_p = sp.Matrix([-sp.sin(ph), sp.cos(ph), 0])
        e_z = sp.Matrix([0, 0, 1])
        basis = [e_r, e_z, e_p]  # grid order (r, z, phi)
        free = [r, z]
        fix = {ph: 0}
    else:
        raise ValueError(name)
    return q, x, basis, free, fix, (r, z)


def derive(system: str, operator: str) -> list[dict]:
    """Return the linear terms of `operator` in `system` (see module docstring)."""
    import sympy as sp

    q, x, basis, free, fix, (r, z) = _system(system)
    dim = len(q)
    jinv = sp.simplify(x.jacobian(q).inv())  # d q_a / d x_i = jinv[a, i]

    def d_cart(expr, i):
        return sum(jinv[a, i] * sp.diff(expr, q[a]) for a in range(dim))

    rank_in, rank_out = OPERATORS[operator]
    in_idx = list(itertools.product(range(dim), repeat=rank_in))
    funcs = {idx: sp.Function("f" + "".join(map(str, idx)))(*free) for idx in in_idx}

    # Cartesian components of the input field
    if rank_in == 0:
        s = funcs[()]
    elif rank_in == 1:
        V = [sum(funcs[(k,)] * basis[k][i] for k in range(dim)) for i in range(dim)]
    else:
        T = [[sum(funcs[(k, m)] * basis[k][i] * basis[m][j] for k in range(dim) for m in range(dim))
              for j in range(dim)] for i in range(dim)]

    if operator == "laplace":
        cart = sum(d_cart(d_cart(s, i), i) for i in range(dim))
    elif operator == "gradient":
        cart = [d_cart(s, i) for i in range(dim)]
    elif operator == "divergence":
        cart = sum(d_cart(V[i], i) for i in range(dim))
    elif operator == "vector_gradient":
        cart = [[d_cart(V[i], j) for j in range(dim)] for i in range(dim)]
    elif operator == "vector_laplace":
        cart = [sum(d_cart(d_cart(V[i], j), j) for j in range(dim)) for i in range(dim)]
    elif operator == "tensor_divergence":
        cart = [sum(d_cart(T[i][j], j) for j in range(dim)) for i in range(dim)]
    elif operator == "tensor_double_divergence":
        cart = sum(d_cart(d_cart(T[i][j], j), i) for i in range(dim) for j in range(dim))
    else:
        raise ValueError(operator)

    # project on the local basis
    out = {}
    if rank_out == 0:
        out[()] = cart
    elif rank_out == 1:
        for k in range(dim):
            out[(k,)] = sum(basis[k][i] * cart[i] for i in range(dim))
    else:
        for k in range(dim):
            for m in range(dim):
                out[(k, m)] = sum(basis[k][i] * cart[i][j] * basis[m][j] for i in range(dim) for j in range(dim))

    # placeholders for derivatives of the component functions
    repl, syms = [], {}
    for idx, f in funcs.items():
        for a, b in sorted(ORDERS, key=lambda ab: -(ab[0] + ab[1])):
            if b and z not in free:
                continue
            sym = sp.Symbol(f"D_{''.join(map(str, idx))}_{a}{b}")
            syms[(idx, a, b)] = sym
            if (a, b) == (0, 0):
                target = f
            else:
                args = ([(r, a)] if a else []) + ([(z, b)] if b else [])
                target = sp.Derivative(f, *args)
            repl.append((target, sym))

    terms = []
    for oidx, expr in out.items():
        expr = sp.expand(expr.doit())
        for target, sym in repl:
            expr = expr.subs(target, sym)
        expr = sp.simplify(expr.subs(fix))
        if expr.has(sp.Derivative) or any(expr.has(f) for f in funcs.values()):
            raise RuntimeError(f"unreplaced function in {system}/{operator}: {expr}")
        for (idx, a, b), sym in syms.items():
            c = sp.simplify(sp.diff(expr, sym))
            if c != 0:
                if c.has(*syms.values()):
                    raise RuntimeError("operator is not linear")
                terms.append({"out": list(oidx), "in": list(idx), "dr": a, "dz": b, "coeff": sp.sstr(c)})
    return terms


def _load() -> dict:
    if CACHE.exists():
        try:
            return json.loads(CACHE.read_text())
        except Exception:
            return {}
    return {}


def ensure_cache(pairs=None) -> dict:
    """Derive (once) and store all requested (system, operator) pairs."""
    cache = _load()
    todo = pairs or [(s, o) for s in SYSTEMS for o in OPERATORS]
    changed = False
    for s, o in todo:
        key = f"{s}/{o}"
        if key not in cache:
            cache[key] = derive(s, o)
            changed = True
    if changed:
        tmp = CACHE.with_suffix(f".{os.getpid()}.tmp")
        tmp.write_text(json.dumps(cache, indent=0, sort_keys=True))
        os.replace(tmp, CACHE)
    return cache


_COMPILED: dict = {}


def terms(system: str, operator: str) -> list[dict]:
    """Terms with numpy-callable coefficients ``coeff_fn(r, z)``."""
    key = (system, operator)
    if key not in _COMPILED:
        import numpy as np
        import sympy as sp

        cache = _load()
        name = f"{system}/{operator}"
        if name not in cache:
            cache = ensure_cache([(system, operator)])
        r = sp.Symbol("r", positive=True)
        z = sp.Symbol("z", real=True)
        out = []
        for t in cache[name]:
            expr = sp.sympify(t["coeff"], locals={"r": r, "z": z})
            fn = sp.lambdify((r, z), expr, "numpy")
            out.append({**t, "out": tuple(t["out"]), "in": tuple(t["in"]),
                        "fn": (lambda fn: (lambda rr, zz=0.0: np.broadcast_to(np.asarray(fn(rr, zz), dtype=float), np.shape(rr)) if np.ndim(rr) else float(fn(rr, zz))))(fn)})
        _COMPILED[key] = out
    return _COMPILED[key]


def grid_system(cls_name: str) -> str:
    return {"PolarSymGrid": "polar", "SphericalSymGrid": "spherical", "CylindricalSymGrid": "cylindrical"}[cls_name]


if __name__ == "__main__":
    import sys
    import time

    for s in SYSTEMS:
        for o in OPERATORS:
            t0 = time.time()
            ts = derive(s, o)
            print(f"{s}/{o}: {len(ts)} terms in {time.time() - t0:.1f}s")
            if len(sys.argv) > 1:
                for t in ts:
                    print("   ", t)
