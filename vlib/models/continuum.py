"""Continuum oracle: random smooth fields in closed form and the exact value of every
differential operator on them.

Cartesian grids: components are random trigonometric/polynomial expressions of (x, y, z);
operators follow the Cartesian definitions (grad_i = d_i s, div = d_i v_i,
(grad v)_ij = d_j v_i, (div T)_i = d_j T_ij).

Symmetric curvilinear grids: components are taken from families that are smooth *as
Cartesian fields* through r = 0 (e.g. v = g(r^2) x + h(r^2) x_perp, T = A 1 + B x x^T + ...)
so that their local components are even/odd in r as required; the exact operator value is
assembled from the symbolically derived terms of :mod:`vlib.models.curvi`.
"""

from __future__ import annotations

import itertools

import numpy as np

from . import curvi
from .stencils import RANKS


def _rand_coeff(rng, lo=0.3, hi=0.9):
    return float(np.round(rng.uniform(lo, hi), 3)) * (1 if rng.random() < 0.5 else -1)


def cartesian_case(rng, dim: int, operator: str, extent: float = 1.0):
    """Return (in_fn, out_fn): callables mapping coordinate arrays to component arrays."""
    import sympy as sp

    xs = sp.symbols("x y z")[:dim]

    def scalar():
        expr = 0
        for _ in range(2):
            arg = sum(_rand_coeff(rng, 0.5, 2.0) / extent * x for x in xs) + _rand_coeff(rng)
            expr += _rand_coeff(rng) * (sp.sin(arg) if rng.random() < 0.5 else sp.cos(arg))
        expr += _rand_coeff(rng) * sum(_rand_coeff(rng) / extent**2 * x**2 for x in xs)
        return expr

    rank_in, rank_out = RANKS[operator]
    comps = {idx: scalar() for idx in itertools.product(range(dim), repeat=rank_in)}
    d = lambda e, i: sp.diff(e, xs[i])  # noqa: E731
    if operator == "laplace":
        out = {(): sum(d(d(comps[()], i), i) for i in range(dim))}
    elif operator == "gradient":
        out = {(i,): d(comps[()], i) for i in range(dim)}
    elif operator == "gradient_squared":
        out = {(): sum(d(comps[()], i) ** 2 for i in range(dim))}
    elif operator == "divergence":
        out = {(): sum(d(comps[(i,)], i) for i in range(dim))}
    elif operator == "vector_gradient":
        out = {(i, j): d(comps[(i,)], j) for i in range(dim) for j in range(dim)}
    elif operator == "vector_laplace":
        out = {(i,): sum(d(d(comps[(i,)], j), j) for j in range(dim)) for i in range(dim)}
    elif operator == "tensor_divergence":
        out = {(i,): sum(d(comps[(i, j)], j) for j in range(dim)) for i in range(dim)}
    else:
        raise ValueError(operator)
    return _lambdify(xs, comps, dim, rank_in), _lambdify(xs, out, dim, rank_out), {str(k): str(v) for k, v in comps.items()}


def _lambdify(variables, comps: dict, dim: int, rank: int):
    import sympy as sp

    fns = {idx: sp.lambdify(variables, expr, "numpy") for idx, expr in comps.items()}

    def evaluate(*coords):
        shape = np.broadcast(*coords).shape
        out = np.zeros((dim,) * rank + shape)
        for idx, fn in fns.items():
            out[idx] = np.broadcast_to(fn(*coords), shape)
        return out

    return evaluate


def curvilinear_case(rng, system: str, operator: str, extent_r: float = 1.0, extent_z: float = 1.0):
    """Smooth admissible field on a symmetric grid and the exact operator value.

    Returns (in_fn, out_fn, description); both callables take (r, z) arrays (z ignored for
    polar/spherical) and return component arrays in grid component order.
    """
    import sympy as sp

    r = sp.Symbol("r", positive=True)
    z = sp.Symbol("z", real=True)
    has_z = system == "cylindrical"
    dim = {"polar": 2, "spherical": 3, "cylindrical": 3}[system]

    def G():
        """Random smooth function of (r^2, z) with O(1) values and derivatives."""
        a = _rand_coeff(rng, 0.4, 1.2) / extent_r**2
        e = _rand_coeff(rng) + _rand_coeff(rng) * sp.cos(a * r**2 + _rand_coeff(rng))
        e += _rand_coeff(rng, 0.1, 0.5) * r**2 / extent_r**2
        if has_z:
            k = _rand_coeff(rng, 0.5, 2.0) / extent_z
            e = e * (1 + 0.5 * sp.cos(k * z + _rand_coeff(rng))) + _rand_coeff(rng) * sp.sin(k * z)
        return e

    rank_in, rank_out = RANKS[operator]
    comps: dict = {}
    if rank_in == 0:
        comps[()] = G()
    elif rank_in == 1:
        if system == "polar":
            comps = {(0,): r * G(), (1,): r * G()}
        elif system == "spherical":
            comps = {(0,): r * G(), (1,): sp.Integer(0), (2,): sp.Integer(0)}
        else:  # (r, z, phi)
            comps = {(0,): r * G(), (1,): G(), (2,): r * G()}
    else:
        A = G()
        if system == "polar":
            E = G()
            comps = {(0, 0): A + r**2 * G(), (0, 1): E + r**2 * G(), (1, 0): -E + r**2 * G(), (1, 1): A + r**2 * G()}
        elif system == "spherical":
            comps = {idx: sp.Integer(0) for idx in itertools.product(range(3), repeat=2)}
            comps[(0, 0)] = A + r**2 * G()
            comps[(1, 1)] = comps[(2, 2)] = A
        else:  # order (r, z, phi)
            E = G()
            comps = {
                (0, 0): A + r**2 * G(), (2, 2): A + r**2 * G(), (1, 1): G(),
                (0, 1): r * G(), (1, 0): r * G(), (2, 1): r * G(), (1, 2): r * G(),
                (0, 2): E + r**2 * G(), (2, 0): -E + r**2 * G(),
            }

    def dd(expr, a, b):
        for _ in range(a):
            expr = sp.diff(expr, r)
        for _ in range(b):
            expr = sp.diff(expr, z)
        return expr

    out: dict = {}
    if operator == "gradient_squared":
        total = sp.Integer(0)
        for t in curvi.terms(system, "gradient"):
            c = sp.sympify(t["coeff"], locals={"r": r, "z": z})
            total += (c * dd(comps[()], t["dr"], t["dz"])) ** 2
        out[()] = total
    else:
        for t in curvi.terms(system, operator):
            c = sp.sympify(t["coeff"], locals={"r": r, "z": z})
            term = c * dd(comps[t["in"]], t["dr"], t["dz"])
            out[t["out"]] = out.get(t["out"], 0) + term
    variables = (r, z)
    descr = {str(k): str(v) for k, v in comps.items() if v != 0}
    return _lambdify(variables, comps, dim, rank_in), _lambdify(variables, out, dim, rank_out), descr
