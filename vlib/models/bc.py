"""Boundary-condition model: structured conditions, their rendering into the documented
specification formats, and the defining equations evaluated on a padded array.

A *structure* is ``{"axes": [axis_entry, ...]}`` with ``axis_entry`` either
``{"periodic": "periodic" | "anti-periodic"}`` or ``{"sides": [cond_low, cond_high]}`` where
a ``cond`` is::

    {"kind": "value"|"derivative"|"mixed"|"curvature", "normal": bool,
     "alias": <name used in the spec>, "vform": "zero"|"const"|"tensor"|"array"|"expr"|"texpr",
     "v": ..., "gamma": ..., "beta": ...}           # parameters as numpy arrays / floats

``vform`` "expr" is a string expression of the boundary coordinates evaluated when the
condition is built (constant conditions); "texpr" is a ``*_expression`` condition evaluated
at every call with the time ``t``.  For expression forms the structure carries both the
text and an independent numpy callable built by the generator (no parser involved).
"""

from __future__ import annotations

import numpy as np

EPS = 2.220446049250313e-16

ALIASES = {
    ("value", False): ["value", "dirichlet"],
    ("derivative", False): ["derivative", "neumann"],
    ("mixed", False): ["mixed", "robin"],
    ("curvature", False): ["curvature", "second_derivative", "extrapolate"],
    ("value", True): ["normal_value", "normal_dirichlet", "dirichlet_normal"],
    ("derivative", True): ["normal_derivative", "normal_neumann", "neumann_normal"],
    ("mixed", True): ["normal_mixed", "normal_robin"],
    ("curvature", True): ["normal_curvature"],
}
EXPR_ALIASES = {
    "value": ["value_expression", "value_expr"],
    "derivative": ["derivative_expression", "derivative_expr"],
    "mixed": ["mixed_expression", "mixed_expr", "robin_expression", "robin_expr"],
}


# --------------------------------------------------------------------------------------
# expressions with a twin numpy callable


def gen_expression(rng, names: list[str], with_t: bool):
    """Random expression of the coordinates `names` (and t): returns (text, fn(coords, t))."""
    terms_txt, terms_fn = [], []
    c0 = float(np.round(rng.uniform(-2, 2), 2))
    terms_txt.append(repr(c0))
    terms_fn.append(lambda c, t, c0=c0: c0 + 0 * t)
    for name in names:
        if rng.random() < 0.8:
            a = float(np.round(rng.uniform(-1.5, 1.5), 2))
            kind = int(rng.integers(4))
            if kind == 0:
                terms_txt.append(f"{a!r}*{name}")
                terms_fn.append(lambda c, t, a=a, n=name: a * c[n])
            elif kind == 1:
                terms_txt.append(f"{a!r}*sin({name})")
                terms_fn.append(lambda c, t, a=a, n=name: a * np.sin(c[n]))
            elif kind == 2:
                terms_txt.append(f"{a!r}*{name}**2")
                terms_fn.append(lambda c, t, a=a, n=name: a * c[n] ** 2)
            else:
                terms_txt.append(f"{a!r}*cos(2*{name})")
                terms_fn.append(lambda c, t, a=a, n=name: a * np.cos(2 * c[n]))
    if with_t:
        b = float(np.round(rng.uniform(-1, 1), 2))
        if rng.random() < 0.5:
            terms_txt.append(f"{b!r}*t")
            terms_fn.append(lambda c, t, b=b: b * t)
        else:
            terms_txt.append(f"{b!r}*sin(t)")
            terms_fn.append(lambda c, t, b=b: b * np.sin(t))
    text = " + ".join(terms_txt)
    return text, (lambda c, t, fs=tuple(terms_fn): sum(f(c, t) for f in fs))


# --------------------------------------------------------------------------------------
# geometry helpers


def face_shape(shape, axis):
    return tuple(s for i, s in enumerate(shape) if i != axis)


def tensor_shape(dim, rank, normal):
    return (dim,) * (rank - 1 if normal else rank)


def face_coords(bounds, shape, axes_names, axis, upper):
    """Coordinates of the face centres: dict name -> array of the face shape."""
    dxs = [(b - a) / n for (a, b), n in zip(bounds, shape)]
    centres = [a + (np.arange(n) + 0.5) * dx for (a, _), n, dx in zip(bounds, shape, dxs)]
    others = [i for i in range(len(shape)) if i != axis]
    mesh = np.meshgrid(*[centres[i] for i in others], indexing="ij") if others else []
    coords = {axes_names[i]: m for i, m in zip(others, mesh)}
    fshape = face_shape(shape, axis)
    coords[axes_names[axis]] = np.full(fshape, bounds[axis][1] if upper else bounds[axis][0])
    return coords


# --------------------------------------------------------------------------------------
# generator


def gen_condition(rng, *, dim, rank, shape, axis, upper, bounds, axes_names, allow_curvature=True, force=None):
    """Draw one local condition for a side."""
    kinds = ["value", "derivative", "mixed"] + (["curvature"] if allow_curvature and shape[axis] >= 2 else [])
    kind = force or str(rng.choice(kinds))
    normal = bool(rank >= 1 and rng.random() < 0.35)
    tshape = tensor_shape(dim, rank, normal)
    fshape = face_shape(shape, axis)
    forms = ["zero", "const", "const"]
    if tshape:
        forms += ["tensor", "tensor"]
    if fshape:
        forms += ["array", "array"]
    if rank == 0:
        forms += ["expr", "texpr"] if kind != "curvature" else ["expr"]
    vform = str(rng.choice(forms))
    cond = {"kind": kind, "normal": normal, "vform": vform}

    def draw(form):
        if form == "zero":
            return 0.0
        if form == "const":
            return float(np.round(rng.uniform(-2, 2), 2))
        if form == "tensor":
            return np.round(rng.uniform(-2, 2, size=tshape), 2)
        return np.round(rng.uniform(-2, 2, size=tshape + fshape), 2)

    if vform in ("expr", "texpr"):
        names = [axes_names[i] for i in range(len(shape)) if i != axis]
        text, fn = gen_expression(rng, names, with_t=vform == "texpr")
        cond["v_text"], cond["v_fn"] = text, fn
        cond["alias"] = str(rng.choice(EXPR_ALIASES[kind] if vform == "texpr" else ALIASES[(kind, False)]))
        cond["normal"] = False
        if kind == "mixed":
            text2, fn2 = gen_expression(rng, names, with_t=vform == "texpr")
            cond["b_text"], cond["b_fn"] = text2, fn2
            # keep gamma*dx away from -2 (singular Robin condition)
            cond["v_text"], cond["v_fn"] = "0.5 + (" + text + ")**2", (lambda c, t, fn=fn: 0.5 + fn(c, t) ** 2)
        if vform == "texpr" and rng.random() < 0.3:
            cond["value_cell"] = -1 if upper else 0  # explicit index of the adjacent cell
    else:
        cond["alias"] = str(rng.choice(ALIASES[(kind, normal)]))
        cond["v"] = draw(vform)
        if kind == "mixed":
            gam = draw(vform)
            cond["v"] = np.abs(gam) + 0.25 if vform != "zero" else 0.0  # gamma >= 0: no singular denominators
            if rng.random() < 0.1 and vform == "const":
                cond["v"] = float("inf")
            bform = vform if rng.random() < 0.6 else str(rng.choice(["zero", "const"] + (["array"] if fshape else [])))
            cond["beta"] = draw(bform)
            cond["bform"] = bform
    return cond


def gen_structure(rng, gspec_info, rank):
    """Conditions for all axes/sides of a grid."""
    dim, shape, bounds, periodic, axes_names = (gspec_info[k] for k in ("dim", "shape", "bounds", "periodic", "axes"))
    axes = []
    for axis in range(len(shape)):
        if periodic[axis]:
            axes.append({"periodic": "anti-periodic" if rng.random() < 0.3 else "periodic"})
        else:
            same = rng.random() < 0.3
            low = gen_condition(rng, dim=dim, rank=rank, shape=shape, axis=axis, upper=False, bounds=bounds, axes_names=axes_names)
            if same and low["vform"] in ("zero", "const", "tensor"):
                high = dict(low)
            else:
                high = gen_condition(rng, dim=dim, rank=rank, shape=shape, axis=axis, upper=True, bounds=bounds, axes_names=axes_names)
            axes.append({"sides": [low, high]})
    return {"axes": axes}


# --------------------------------------------------------------------------------------
# rendering into specification formats


def is_all_zero(cond) -> bool:
    """True if the condition can be written as a bare alias string (all parameters zero)."""
    if cond["vform"] != "zero":
        return False
    return cond["kind"] != "mixed" or (np.ndim(cond["beta"]) == 0 and cond["beta"] == 0)


def render_condition(rng, cond, style=None):
    """Local condition in one of the documented formats."""
    alias = cond["alias"]
    if cond["vform"] in ("expr", "texpr"):
        d = {"type": alias, "value": cond["v_text"]}
        if cond["kind"] == "mixed":
            d["const"] = cond["b_text"]
        if "value_cell" in cond:
            d["value_cell"] = cond["value_cell"]
        if cond["kind"] != "mixed" and "value_cell" not in cond and rng.random() < 0.5:
            return {alias: cond["v_text"]}
        return d
    v = cond["v"]
    v_out = v.tolist() if isinstance(v, np.ndarray) and rng.random() < 0.3 else v
    if cond["kind"] == "mixed":
        beta = cond["beta"]
        if np.ndim(beta) == 0 and beta == 0 and rng.random() < 0.4:
            return {alias: v_out}
        return {"type": alias, "value": v_out, "const": beta}
    style = style or str(rng.choice(["typed", "single", "string"]))
    if is_all_zero(cond) and style == "string":
        return alias
    if style == "single":
        return {alias: v_out}
    return {"type": alias, "value": v_out}


def conditions_equal(a, b):
    if a.keys() != b.keys():
        return False
    for k in a:
        if k in ("v_fn", "b_fn"):
            if a[k] is not b[k]:
                return False
        elif isinstance(a[k], np.ndarray) or isinstance(b[k], np.ndarray):
            if not np.array_equal(a[k], b[k]):
                return False
        elif a[k] != b[k]:
            return False
    return True


def render_spec(rng, structure, axes_names, boundary_names, accept_lists=True):
    """Render the complete specification; returns (spec, format_name)."""
    axes = structure["axes"]
    sides = [(i, s, ax["sides"][s]) for i, ax in enumerate(axes) if "sides" in ax for s in (0, 1)]
    any_periodic = any("periodic" in ax for ax in axes)
    all_equal = len(sides) > 0 and all(conditions_equal(c, sides[0][2]) for _, _, c in sides)
    formats = ["per_side", "per_side", "wildcard", "named"]
    if all_equal and not any_periodic:
        formats += ["uniform", "uniform"]
    if all_equal and any_periodic and is_all_zero(sides[0][2]) and all("periodic" == ax.get("periodic", "periodic") for ax in axes):
        formats += ["auto_periodic", "auto_periodic"]
    if accept_lists:
        formats += ["legacy_list"]
        if not any_periodic and all(conditions_equal(ax["sides"][0], axes[0]["sides"][0]) and conditions_equal(ax["sides"][1], axes[0]["sides"][1]) for ax in axes):
            formats += ["legacy_lowhigh"]
    fmt = str(rng.choice(formats))
    if fmt == "uniform":
        return render_condition(rng, sides[0][2]), fmt
    if fmt == "auto_periodic":
        return "auto_periodic_" + sides[0][2]["alias"], fmt
    if fmt == "legacy_list":
        out = []
        for ax in axes:
            if "periodic" in ax:
                out.append(ax["periodic"])
            else:
                out.append([render_condition(rng, ax["sides"][0]), render_condition(rng, ax["sides"][1])])
        return out, fmt
    if fmt == "legacy_lowhigh":
        ax = next(a for a in axes if "sides" in a)
        return {"low": render_condition(rng, ax["sides"][0]), "high": render_condition(rng, ax["sides"][1])}, fmt
    spec = {}
    name_of = {v: k for k, v in boundary_names.items()}
    wildcard = None
    if fmt == "wildcard" and sides:
        wildcard = sides[int(rng.integers(len(sides)))][2]
        spec["*"] = render_condition(rng, wildcard)
    for i, ax in enumerate(axes):
        name = axes_names[i]
        if "periodic" in ax:
            spec[name] = ax["periodic"] if rng.random() < 0.7 else {"type": ax["periodic"]}
            continue
        lo, hi = ax["sides"]
        if wildcard is not None and conditions_equal(lo, wildcard) and conditions_equal(hi, wildcard):
            continue
        if conditions_equal(lo, hi) and rng.random() < 0.6 and lo["vform"] in ("zero", "const", "tensor"):
            spec[name] = render_condition(rng, lo)
            continue
        for s, cond in ((0, lo), (1, hi)):
            if wildcard is not None and conditions_equal(cond, wildcard):
                continue
            if fmt == "named" and (i, bool(s)) in name_of and rng.random() < 0.7:
                spec[name_of[(i, bool(s))]] = render_condition(rng, cond)
            else:
                spec[name + "-+"[s]] = render_condition(rng, cond)
    return spec, fmt


# --------------------------------------------------------------------------------------
# defining equations on a padded array


def _param(value, tshape, fshape):
    """Broadcast a parameter to tensor_shape + face_shape."""
    value = np.asarray(value, dtype=float)
    if value.shape == tshape + fshape:
        return value
    if value.shape == tshape:
        return np.broadcast_to(value.reshape(tshape + (1,) * len(fshape)), tshape + fshape)
    return np.broadcast_to(value, tshape + fshape)


def check_padded(structure, info, rank, before, after, t, eps=EPS):
    """Check `after` (padded array after imposing the conditions on `before`).

    Returns a list of problem strings (empty = all defining equations hold and only the
    permitted entries changed).
    """
    dim, shape, bounds, axes_names = info["dim"], info["shape"], info["bounds"], info["axes"]
    nd = len(shape)
    ncomp = before.ndim - nd
    problems = []
    allowed = np.zeros(before.shape, dtype=bool)  # entries that may change
    valid = (slice(None),) * ncomp + (slice(1, -1),) * nd
    dxs = [(b - a) / n for (a, b), n in zip(bounds, shape)]
    for axis, ax in enumerate(structure["axes"]):
        dx = dxs[axis]
        for upper in (False, True):
            def sl(pos, comp=(slice(None),) * ncomp):
                idx = [slice(1, -1)] * nd
                idx[axis] = pos
                return tuple(comp) + tuple(idx)

            ghost_pos = -1 if upper else 0
            c1_pos, c2_pos = (-2, -3) if upper else (1, 2)
            opp_pos = 1 if upper else -2
            fshape = face_shape(shape, axis)
            if "periodic" in ax:
                sign = -1.0 if ax["periodic"] == "anti-periodic" else 1.0
                g, want = after[sl(ghost_pos)], sign * before[sl(opp_pos)]
                allowed[sl(ghost_pos)] = True
                if not np.array_equal(g, want):
                    problems.append(f"{ax['periodic']} axis {axis} {'upper' if upper else 'lower'}: ghost != {'-' if sign < 0 else ''}opposite cell")
                continue
            cond = ax["sides"][int(upper)]
            normal = cond["normal"]
            comp = (slice(None),) * (ncomp - 1) + (axis,) if normal else (slice(None),) * ncomp
            tshape = tensor_shape(dim, rank, normal)
            g = after[sl(ghost_pos, comp)]
            c1 = before[sl(c1_pos, comp)]
            allowed[sl(ghost_pos, comp)] = True
            if cond["vform"] in ("expr", "texpr"):
                coords = face_coords(bounds, shape, axes_names, axis, upper)
                v = _param(cond["v_fn"](coords, t), tshape, fshape)
                beta = _param(cond["b_fn"](coords, t), tshape, fshape) if cond["kind"] == "mixed" else None
            else:
                v = _param(cond["v"], tshape, fshape)
                beta = _param(cond["beta"], tshape, fshape) if cond["kind"] == "mixed" else None
            mag = np.abs(g) + np.abs(c1) + np.abs(v) * (1 if cond["kind"] == "value" else dx)
            kind = cond["kind"]
            where = f"axis {axis} {'upper' if upper else 'lower'} ({cond['alias']}, {cond['vform']})"
            if kind == "value":
                resid, scale = (g + c1) / 2 - v, mag
                law = "(ghost+cell)/2 = v"
            elif kind == "derivative":
                resid, scale = (g - c1) / dx - v, mag / dx
                law = "(ghost-cell)/dx = d"
            elif kind == "mixed":
                inf = np.isinf(v)
                vv = np.where(inf, 0.0, v)
                resid = (g - c1) / dx + vv * (g + c1) / 2 - beta
                resid = np.where(inf, (g + c1) / 2, resid)  # gamma -> infinity imposes value 0
                scale = (np.abs(g) + np.abs(c1)) * (1 / dx + np.abs(vv)) + np.abs(beta) + 1e-300
                law = "(ghost-cell)/dx + gamma*(ghost+cell)/2 = beta"
            else:
                c2 = before[sl(c2_pos, comp)]
                resid = (g - 2 * c1 + c2) / dx**2 - v
                scale = (np.abs(g) + 2 * np.abs(c1) + np.abs(c2)) / dx**2 + np.abs(v)
                law = "(ghost-2*c1+c2)/dx^2 = k"
            bad = np.abs(resid) > 64 * eps * (scale + 1e-300)
            if bad.any():
                k = np.unravel_index(int(np.argmax(np.abs(resid) / (scale + 1e-300))), resid.shape)
                problems.append(f"{where}: {law} violated by {float(np.abs(resid[k])):.3g} (scale {float(np.abs(scale[k]) if np.ndim(scale) else scale):.3g}) at {tuple(map(int, k))}")
    # everything outside the permitted entries is bit-identical
    same = (after == before) | (np.isnan(after) & np.isnan(before))
    stray = ~same & ~allowed
    if stray.any():
        k = np.argwhere(stray)[0]
        region = "valid cell" if all(1 <= k[ncomp + i] <= shape[i] for i in range(nd)) else "ghost cell that must not be touched"
        problems.append(f"stray write: {region} at {tuple(map(int, k))} changed from {before[tuple(k)]!r} to {after[tuple(k)]!r}")
    return problems
