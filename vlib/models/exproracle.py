"""Expression oracle: evaluates the *text* of a mathematical expression with mpmath through
Python's ``ast`` — no sympy involved — and a seeded grammar producing such texts.

``evaluate(text, env, dps)`` returns ``(value, max_intermediate_magnitude)``; values outside
the real, finite domain raise :class:`OutsideDomain`.  ``judge_scale`` combines a 50-digit and
a 16-digit evaluation into the round-off scale used as tolerance.
"""

from __future__ import annotations

import ast
import math

import numpy as np


class OutsideDomain(Exception):
    pass


def _functions(mp):
    def heaviside(x, h=mp.mpf("0.5")):
        if x > 0:
            return mp.mpf(1)
        if x < 0:
            return mp.mpf(0)
        return mp.mpf(h)

    def sign(x):
        return mp.mpf(0) if x == 0 else (mp.mpf(1) if x > 0 else mp.mpf(-1))

    return {
        "sin": mp.sin, "cos": mp.cos, "tan": mp.tan, "asin": mp.asin, "acos": mp.acos, "atan": mp.atan,
        "sinh": mp.sinh, "cosh": mp.cosh, "tanh": mp.tanh, "asinh": mp.asinh, "acosh": mp.acosh, "atanh": mp.atanh,
        "exp": mp.exp, "log": mp.log, "sqrt": mp.sqrt, "abs": abs, "Abs": abs, "sign": sign,
        "floor": mp.floor, "ceiling": mp.ceil, "erf": mp.erf, "erfc": mp.erfc, "gamma": mp.gamma,
        "heaviside": heaviside, "Heaviside": heaviside, "atan2": mp.atan2, "hypot": mp.hypot,
    }


DIFFERENTIABLE = {"sin", "cos", "tan", "asin", "acos", "atan", "sinh", "cosh", "tanh", "asinh", "acosh", "atanh", "exp", "log", "sqrt",
                  "erf", "erfc", "atan2"}


def evaluate(text: str, env: dict, dps: int = 50, user_funcs: dict | None = None):
    """Evaluate `text` with variables/constants `env` (floats) at `dps` digits."""
    import mpmath as mp

    old = mp.mp.dps
    mp.mp.dps = dps
    try:
        funcs = _functions(mp)
        if user_funcs:
            funcs.update(user_funcs)
        names = {k: mp.mpf(v) for k, v in env.items()}
        names.update({"pi": mp.pi, "E": mp.e})
        mags = [mp.mpf(0)]

        def real(v):
            if isinstance(v, mp.mpc):
                if abs(v.imag) > 0:
                    raise OutsideDomain("complex")
                v = v.real
            if not mp.isfinite(v):
                raise OutsideDomain("not finite")
            mags[0] = max(mags[0], abs(v))
            return v

        REL = mp.mpf("1e-6")

        def near(v, point, sub):
            """value within relative distance REL (of its subtree's magnitudes) of a singular point"""
            return abs(v - point) <= REL * max(sub, abs(point), mp.mpf("1e-300"))

        def ev(node):
            """returns (value, largest magnitude inside the subtree)"""
            if isinstance(node, ast.Expression):
                return ev(node.body)
            if isinstance(node, ast.Constant):
                v = real(mp.mpf(repr(node.value)) if isinstance(node.value, float) else mp.mpf(node.value))
                return v, abs(v)
            if isinstance(node, ast.Name):
                if node.id not in names:
                    raise KeyError(node.id)
                v = real(names[node.id])
                return v, abs(v)
            if isinstance(node, ast.UnaryOp):
                v, m = ev(node.operand)
                return real(-v if isinstance(node.op, ast.USub) else v), m
            if isinstance(node, ast.BinOp):
                (a, ma), (b, mb) = ev(node.left), ev(node.right)
                sub = max(ma, mb)
                try:
                    if isinstance(node.op, ast.Add):
                        v = real(a + b)
                    elif isinstance(node.op, ast.Sub):
                        v = real(a - b)
                    elif isinstance(node.op, ast.Mult):
                        v = real(a * b)
                    elif isinstance(node.op, ast.Div):
                        if near(b, 0, mb):
                            raise OutsideDomain("division by (nearly) zero")
                        v = real(a / b)
                    elif isinstance(node.op, ast.Pow):
                        integer_exponent = b == mp.floor(b) and abs(b) < 64
                        if (not integer_exponent or b < 0) and near(a, 0, ma):
                            raise OutsideDomain("power with base (nearly) zero")
                        if not integer_exponent and a < 0:
                            raise OutsideDomain("fractional power of a negative base")
                        if a != 0 and abs(b) * abs(mp.log(abs(a))) > 150:
                            raise OutsideDomain("power overflows/underflows")
                        v = real(mp.power(a, b))
                    else:
                        raise ValueError(f"operator {node.op}")
                except ZeroDivisionError as exc:
                    raise OutsideDomain("division by zero") from exc
                return v, max(sub, abs(v))
            if isinstance(node, ast.Call):
                name = node.func.id
                evaluated = [ev(a) for a in node.args]
                args = [e[0] for e in evaluated]
                sub = max([e[1] for e in evaluated] + [mp.mpf(0)])
                a0, m0 = evaluated[0]
                if name in ("sqrt", "log", "heaviside", "Heaviside", "sign", "abs", "Abs") and near(a0, 0, m0):
                    raise OutsideDomain(f"{name} at (nearly) zero")
                if name in ("asin", "acos", "atanh") and (near(a0, 1, m0) or near(a0, -1, m0)):
                    raise OutsideDomain(f"{name} at the edge of its domain")
                if name == "acosh" and near(a0, 1, m0):
                    raise OutsideDomain("acosh at 1")
                if name in ("floor", "ceiling") and near(a0, mp.nint(a0), m0):
                    raise OutsideDomain(f"{name} at an integer")
                if name in ("atan2", "hypot") and all(near(e[0], 0, e[1]) for e in evaluated):
                    raise OutsideDomain(f"{name} at the origin")
                if name == "atan2" and evaluated[1][0] < 0 and near(a0, 0, max(m0, abs(evaluated[1][0]))):
                    raise OutsideDomain("atan2 on its branch cut (sign of zero decides)")
                if name == "tan" and abs(mp.cos(a0)) < REL * 10:
                    raise OutsideDomain("tan near a pole")
                try:
                    v = real(funcs[name](*args))
                except (ValueError, ZeroDivisionError, OverflowError) as exc:
                    raise OutsideDomain(str(exc)) from exc
                return v, max(sub, abs(v))
            if isinstance(node, ast.Compare) and len(node.ops) == 1:
                (a, ma), (b, mb) = ev(node.left), ev(node.comparators[0])
                if near(a, b, max(ma, mb)):
                    raise OutsideDomain("comparison of (nearly) equal values")
                op = node.ops[0]
                res = {ast.Gt: a > b, ast.GtE: a >= b, ast.Lt: a < b, ast.LtE: a <= b}[type(op)]
                return (mp.mpf(1) if res else mp.mpf(0)), max(ma, mb)
            if isinstance(node, ast.Subscript):
                base = node.value.id
                idx = node.slice.value if isinstance(node.slice, ast.Constant) else None
                v = real(mp.mpf(env[f"{base}[{idx}]"]))
                return v, abs(v)
            raise ValueError(f"unsupported syntax {ast.dump(node)[:60]}")

        value, _ = ev(ast.parse(text, mode="eval"))
        return value, mags[0]
    finally:
        mp.mp.dps = old


def judged_value(text, env, user_funcs=None):
    """Return (value, tolerance) or raise OutsideDomain if the sample is not judged.

    A sample is judged only if the value is real and finite, moderately sized, and
    well-conditioned (relative change < 1e-6 under relative input perturbations of 1e-12).
    """
    import mpmath as mp

    v50, mag = evaluate(text, env, 50, user_funcs)
    if mag > mp.mpf(10) ** 60:
        raise OutsideDomain("huge intermediate values")
    v16, _ = evaluate(text, env, 16, user_funcs)
    for sgn in (1, -1):
        pert = {k: (v * (1 + sgn * 1e-12) if v != 0 else sgn * 1e-300) for k, v in env.items()}
        try:
            vp, _ = evaluate(text, pert, 50, user_funcs)
        except OutsideDomain as exc:
            raise OutsideDomain("domain boundary nearby") from exc
        if abs(vp - v50) > mp.mpf("1e-6") * max(abs(v50), mp.mpf("1e-30")) and abs(vp - v50) > mp.mpf("1e-9") * mag:
            raise OutsideDomain("ill-conditioned")
    err16 = abs(v16 - v50)
    tol = max(mp.mpf(1000) * err16, mp.mpf("1e-11") * abs(v50), mp.mpf("2e-13") * mag, mp.mpf("1e-300"))
    return float(v50), float(tol)


def derivative(text, env, var, user_funcs=None):
    """d/dvar by mpmath numerical differentiation of the oracle."""
    import mpmath as mp

    old = mp.mp.dps
    mp.mp.dps = 40
    try:
        def f(x):
            e = dict(env)
            e[var] = x
            return evaluate(text, e, 40, user_funcs)[0]

        h = mp.mpf("1e-12") * max(abs(mp.mpf(env[var])), 1)
        d = mp.diff(f, mp.mpf(env[var]), h=h)
        d2 = mp.diff(f, mp.mpf(env[var]), h=h * 100)
        if abs(d - d2) > mp.mpf("1e-8") * max(abs(d), mp.mpf("1e-20")):
            raise OutsideDomain("derivative not smooth here")
        return float(d)
    finally:
        mp.mp.dps = old


# --------------------------------------------------------------------------------------
# grammar

UNARY = ["sin", "cos", "tan", "asin", "acos", "atan", "sinh", "cosh", "tanh", "asinh", "acosh", "atanh", "exp", "log", "sqrt",
         "abs", "floor", "ceiling", "erf", "heaviside", "Heaviside"]
BINARY = ["atan2", "hypot", "heaviside"]
LITERALS = ["2", "3", "0.5", "1.5", "0.25", "1e-3", "2.5e2", "10", "pi", "7", "0.1", "1.25e1"]
PROVOKING = ["abs(exp({a}))", "sqrt(({a})**2)", "log(exp({a}))", "({a})/({a})", "exp(log({a}) + log({b}))", "sin({a})**2 + cos({a})**2",
             "(({a}) + ({b}))**2 - ({a})**2", "({a})*({b})/({a})", "tanh({a}) - sinh({a})/cosh({a})", "exp({a})*exp(-({a}))",
             "(({a})**2)**0.5", "log(({a})**2)", "sqrt({a})*sqrt({a})", "({a})**2*({a})**-1", "cos({a})*tan({a})",
             # a function inside its own inverse (identity only on the principal branch) and the reverse
             "asin(sin({a}))", "acos(cos({a}))", "atan(tan({a}))", "acosh(cosh({a}))", "asinh(sinh({a}))", "atanh(tanh({a}))",
             "sin(asin({a}))", "cos(acos({a}))", "tan(atan({a}))", "cosh(acosh({a}))", "atan2(sin({a}), cos({a}))", "exp(log(abs({a})))",
             # roots and absolute values that simplification likes to reorder
             "1/sqrt(abs({a}))", "abs({a})**-0.5", "sqrt(abs(1/({a})))", "abs({a})**1.5/abs({a})", "log(abs({a})**3)", "sqrt(({a})**4)",
             "(({a})**3)**(1/3)", "abs(({a})**3)", "sqrt(({a})**2 * ({b})**2)", "log(({a})*({b})) - log({a})", "(({a})*({b}))**0.5 / ({a})**0.5"]


def gen_expression(rng, variables, depth=3, consts=(), funcs=(), allowed_unary=None):
    """Random expression text; returns (text, set of function symbols used)."""
    used: set = set()
    allowed_unary = list(allowed_unary or UNARY)

    def leaf():
        r = rng.random()
        if r < 0.6 or not LITERALS:
            return str(rng.choice(list(variables)))
        if r < 0.85:
            return str(rng.choice(LITERALS))
        if consts and r < 0.95:
            return str(rng.choice(list(consts)))
        return str(rng.choice(list(variables)))

    def node(d):
        if d <= 0 or rng.random() < 0.15:
            return leaf()
        kind = rng.random()
        if kind < 0.4:
            op = str(rng.choice(["+", "-", "*", "/", "+", "*"]))
            return f"({node(d - 1)} {op} {node(d - 1)})"
        if kind < 0.55:
            base = node(d - 1)
            expo = str(rng.choice(["2", "3", "-1", "-2", "0.5", "(1/2)", "(1/3)", "1.5", "2**2", leaf()]))
            used.add("**")
            style = rng.random()
            if style < 0.3:
                return f"{base}**{expo}"  # unparenthesised: exercises precedence / right associativity
            return f"({base})**{expo}"
        if kind < 0.62:
            return f"-{node(d - 1)}"
        if kind < 0.9:
            f = str(rng.choice(allowed_unary + list(funcs)))
            used.add(f)
            if f == "heaviside" and rng.random() < 0.5:
                return f"heaviside({node(d - 1)}, {rng.choice(['0', '0.5', '1', '0.3'])})"
            return f"{f}({node(d - 1)})"
        if kind < 0.96:
            f = str(rng.choice(["atan2", "hypot"]))
            used.add(f)
            return f"{f}({node(d - 1)}, {node(d - 1)})"
        tmpl = str(rng.choice(PROVOKING))
        used.add("provoking:" + tmpl[:12])
        return "(" + tmpl.format(a=node(d - 2), b=node(d - 2)) + ")"

    text = node(depth)
    return text, used


def shape_of(text: str) -> str:
    """AST shape (operators and call names, no leaves) used for the coverage statistic."""
    def sh(n):
        if isinstance(n, ast.Expression):
            return sh(n.body)
        if isinstance(n, ast.BinOp):
            return f"({sh(n.left)}{type(n.op).__name__[0]}{sh(n.right)})"
        if isinstance(n, ast.UnaryOp):
            return f"-{sh(n.operand)}"
        if isinstance(n, ast.Call):
            return f"{n.func.id}[{','.join(sh(a) for a in n.args)}]"
        if isinstance(n, ast.Compare):
            return "cmp"
        return "."

    return sh(ast.parse(text, mode="eval"))
