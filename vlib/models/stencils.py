"""Executable reference model of the documented finite-difference stencils.

``apply_model(gspec, operator, opts, data_full)`` returns the value the documented stencil
gives on the valid cells for the padded input ``data_full`` (ghost cells included).  The
model is written with whole-array slicing from

* Cartesian grids: textbook tensor-product differences (central / forward / backward first
  differences, 3-point second differences),
* symmetric curvilinear grids: the linear terms derived symbolically from the Cartesian
  definitions in :mod:`vlib.models.curvi` (coefficient at the cell centre times the central
  difference of that order),
* spherical conservative variants: finite-volume (flux) forms over the shells
  ``V_i = (r+^3 - r-^3)/3`` written from first principles.

``abs_mode=True`` evaluates the same stencil with absolute values of all coefficients and
inputs (sum of the magnitudes of all terms): the basis of the round-off budget.
"""

from __future__ import annotations

import numpy as np

from .. import gen
from . import curvi

CARTESIAN = ("UnitGrid", "CartesianGrid")
RANKS = {
    "laplace": (0, 0), "gradient": (0, 1), "gradient_squared": (0, 0), "divergence": (1, 0),
    "vector_gradient": (1, 2), "vector_laplace": (1, 1), "tensor_divergence": (2, 1),
    "tensor_double_divergence": (2, 0),
}


class Unsupported(Exception):
    """The model does not describe this (grid, operator, option) combination."""


def geometry(gspec: dict):
    bounds = gen.grid_bounds(gspec)
    shape = gen.grid_shape(gspec)
    dxs = [(b - a) / n for (a, b), n in zip(bounds, shape)]
    centres = [a + (np.arange(n) + 0.5) * dx for (a, _), n, dx in zip(bounds, shape, dxs)]
    return bounds, shape, dxs, centres


class _Diff:
    """Difference operators acting on the last `nd` axes of a padded array."""

    def __init__(self, nd: int, dxs, abs_mode: bool):
        self.nd, self.dxs, self.abs = nd, dxs, abs_mode

    def shifted(self, data, axis: int, off: int):
        nd = self.nd
        idx = [slice(None)] * (data.ndim - nd) + [slice(1, -1)] * nd
        n = data.shape[data.ndim - nd + axis]
        idx[data.ndim - nd + axis] = slice(1 + off, n - 1 + off)
        out = data[tuple(idx)]
        return np.abs(out) if self.abs else out

    def centre(self, data):
        return self.shifted(data, 0, 0)

    def d1(self, data, axis: int, method: str = "central"):
        dx = self.dxs[axis]
        p, c, m = self.shifted(data, axis, 1), self.shifted(data, axis, 0), self.shifted(data, axis, -1)
        s = 1 if self.abs else -1
        if method == "central":
            return (p + s * m) / (2 * dx)
        if method == "forward":
            return (p + s * c) / dx
        if method == "backward":
            return (c + s * m) / dx
        raise Unsupported(f"method {method}")

    def d2(self, data, axis: int):
        dx = self.dxs[axis]
        p, c, m = self.shifted(data, axis, 1), self.shifted(data, axis, 0), self.shifted(data, axis, -1)
        if self.abs:
            return (p + 2 * c + m) / dx**2
        return (p - 2 * c + m) / dx**2


def _single_axis(operator: str, axes_names):
    """Parse names like d_dx, d_dr_forward, d2_dz2 -> (axis, order, method)."""
    for i, ax in enumerate(axes_names):
        if operator == f"d_d{ax}":
            return i, 1, "central"
        if operator == f"d_d{ax}_forward":
            return i, 1, "forward"
        if operator == f"d_d{ax}_backward":
            return i, 1, "backward"
        if operator == f"d2_d{ax}2":
            return i, 2, "central"
    return None


def axes_names(gspec: dict):
    cls = gspec["cls"]
    if cls in CARTESIAN:
        return list("xyz")[: len(gen.grid_shape(gspec))]
    if cls == "CylindricalSymGrid":
        return ["r", "z"]
    return ["r"]


def apply_model(gspec: dict, operator: str, opts: dict, data_full: np.ndarray, abs_mode: bool = False) -> np.ndarray:
    cls = gspec["cls"]
    bounds, shape, dxs, centres = geometry(gspec)
    nd = len(shape)
    dim = gen.grid_dim(gspec)
    D = _Diff(nd, dxs, abs_mode)
    method = opts.get("method", "central")
    data = np.asarray(data_full)

    single = _single_axis(operator, axes_names(gspec))
    if single is not None:
        axis, order, meth = single
        return D.d1(data, axis, meth) if order == 1 else D.d2(data, axis)

    if operator == "gradient_squared":
        central = opts.get("central", True)
        total = 0
        for a in range(nd):
            if central:
                total = total + D.d1(data, a, "central") ** 2
            else:
                total = total + (D.d1(data, a, "forward") ** 2 + D.d1(data, a, "backward") ** 2) / 2
        return total

    if operator not in RANKS:
        raise Unsupported(operator)

    if cls in CARTESIAN:
        if operator == "laplace":
            if opts.get("corner_weight"):
                raise Unsupported("9-point Laplacian (the statement covers the default 5-point stencil)")
            return sum(D.d2(data, a) for a in range(nd))
        if operator == "gradient":
            return np.stack([D.d1(data, a, method) for a in range(nd)])
        if operator == "divergence":
            return sum(D.d1(data[a], a, method) for a in range(nd))
        if operator == "vector_gradient":
            return np.stack([np.stack([D.d1(data[i], j, method) for j in range(nd)]) for i in range(nd)])
        if operator == "vector_laplace":
            return np.stack([sum(D.d2(data[i], a) for a in range(nd)) for i in range(nd)])
        if operator == "tensor_divergence":
            return np.stack([sum(D.d1(data[i, j], j, method) for j in range(nd)) for i in range(nd)])
        raise Unsupported(operator)

    # ---- symmetric curvilinear grids ----------------------------------------------
    system = curvi.grid_system(cls)
    rank_in, rank_out = RANKS[operator]
    out_shape = (dim,) * rank_out + tuple(shape)
    conservative = effective_conservative(operator, opts)
    if cls == "SphericalSymGrid" and conservative and operator in ("laplace", "divergence", "tensor_divergence", "tensor_double_divergence"):
        return _spherical_conservative(D, operator, method, data, bounds, shape, dxs, centres, abs_mode, out_shape)
    if cls != "SphericalSymGrid" and "conservative" in opts:
        raise Unsupported("conservative option")

    out = np.zeros(out_shape, dtype=np.result_type(data.dtype, float))
    rr = centres[0].reshape((-1,) + (1,) * (nd - 1))
    zz = centres[1].reshape((1, -1)) if nd > 1 else 0.0
    for t in curvi.terms(system, operator):
        comp = data[t["in"]] if rank_in else data
        a, b = t["dr"], t["dz"]
        if (a, b) == (0, 0):
            val = D.centre(comp)
        elif (a, b) == (1, 0):
            val = D.d1(comp, 0, method)
        elif (a, b) == (2, 0):
            val = D.d2(comp, 0)
        elif (a, b) == (0, 1):
            val = D.d1(comp, 1, method)
        elif (a, b) == (0, 2):
            val = D.d2(comp, 1)
        else:
            raise Unsupported("mixed derivative")
        coeff = t["fn"](rr + 0 * (zz if nd > 1 else 0), zz) if nd > 1 else t["fn"](rr)
        coeff = np.broadcast_to(coeff, tuple(shape))
        if abs_mode:
            coeff = np.abs(coeff)
        if rank_out:
            out[t["out"]] += coeff * val
        else:
            out += coeff * val
    return out


def _spherical_conservative(D, operator, method, data, bounds, shape, dxs, centres, abs_mode, out_shape):
    """Finite-volume forms on spherical shells (first principles).

    div-type operators integrate ``(1/r^2) d/dr (r^2 F)`` over the shell: the result is
    ``(r+^2 F(r+) - r-^2 F(r-)) / V`` with ``V = (r+^3 - r-^3)/3``; face values are
    arithmetic means (central) or the up-/down-wind cell value (forward/backward), face
    derivatives are ``(f_{i+1}-f_i)/dr``; undifferentiated ``2 T_t / r`` terms integrate to
    ``T_t (r+^2 - r-^2) / V``.
    """
    dr = dxs[0]
    r = centres[0]
    rp, rm = r + dr / 2, r - dr / 2
    V = (rp**3 - rm**3) / 3
    s = 1 if abs_mode else -1

    def face(comp, side):  # value of comp at the upper (+1) / lower (-1) face
        c = D.shifted(comp, 0, 0)
        if side > 0:
            n = D.shifted(comp, 0, 1)
            return {"central": (c + n) / 2, "forward": n, "backward": c}[method]
        p = D.shifted(comp, 0, -1)
        return {"central": (p + c) / 2, "forward": c, "backward": p}[method]

    def face_deriv(comp, side):
        c = D.shifted(comp, 0, 0)
        if side > 0:
            return (D.shifted(comp, 0, 1) + s * c) / dr
        return (c + s * D.shifted(comp, 0, -1)) / dr

    if operator == "laplace":
        return (rp**2 * face_deriv(data, 1) + s * rm**2 * face_deriv(data, -1)) / V
    if operator == "divergence":
        return (rp**2 * face(data[0], 1) + s * rm**2 * face(data[0], -1)) / V
    if operator == "tensor_divergence":
        if method != "central":
            raise Unsupported("method")
        out = np.zeros(out_shape, dtype=np.result_type(data.dtype, float))
        out[0] = (rp**2 * face(data[0, 0], 1) + s * rm**2 * face(data[0, 0], -1)) / V + s * (rp**2 - rm**2) / V * D.centre(data[2, 2])
        return out
    if operator == "tensor_double_divergence":
        if method != "central":
            raise Unsupported("method")
        flux_p = rp**2 * face_deriv(data[0, 0], 1) + 2 * rp * face(data[0, 0], 1) + s * 2 * rp * face(data[2, 2], 1)
        flux_m = rm**2 * face_deriv(data[0, 0], -1) + 2 * rm * face(data[0, 0], -1) + s * 2 * rm * face(data[2, 2], -1)
        return (flux_p + s * flux_m) / V
    raise Unsupported(operator)


def effective_conservative(operator: str, opts: dict) -> bool:
    """Documented defaults: an explicit ``None`` reads the configuration option
    ``operators.conservative_stencil`` (True unless changed, and the checks never change
    it); when the argument is omitted, tensor_divergence defaults to the non-conservative
    form and the other spherical operators to ``None``."""
    if "conservative" in opts:
        return True if opts["conservative"] is None else bool(opts["conservative"])
    return operator != "tensor_divergence"


def admissible_project(gspec: dict, rank: int, data: np.ndarray, operator: str | None = None, opts: dict | None = None) -> np.ndarray:
    """Project padded input data onto the fields a grid's symmetry admits.

    Only spherical grids restrict inputs.  Without ``operator`` the common core of all
    pre-conditions is used: vectors are radial, tensors are
    ``T_rr e_r e_r + T_t (e_th e_th + e_ph e_ph) + T_a (e_th e_ph - e_ph e_th)``.
    With ``operator`` (and its options) the projection is onto exactly the pre-condition that
    operator documents (the symmetry check each kernel performs when
    ``operators.tensor_symmetry_check`` is on), which leaves more components free:

    * divergence: v_theta = 0 (v_phi is free and must not contribute)
    * vector_gradient / vector_laplace: v_theta = v_phi = 0
    * tensor_divergence, conservative: T_phi_r = T_r_phi = T_r_theta = T_theta_r = 0,
      T_theta_theta = T_phi_phi, T_phi_theta = -T_theta_phi
    * tensor_divergence, non-conservative: T_r_theta = 0, T_theta_theta = T_phi_phi,
      T_phi_theta = -T_theta_phi (T_theta_r, T_phi_r, T_r_phi free)
    * tensor_double_divergence: T_r_theta = -T_theta_r, T_theta_theta = T_phi_phi (rest free)
    """
    if gspec["cls"] != "SphericalSymGrid" or rank == 0:
        return data
    data = data.copy()
    if rank == 1:
        if operator == "divergence":
            data[1] = 0
        else:
            data[1:] = 0
        return data
    t = (data[1, 1] + data[2, 2]) / 2
    a = (data[1, 2] - data[2, 1]) / 2
    if operator == "tensor_divergence" and not effective_conservative(operator, opts or {}):
        out = data.copy()
        out[0, 1] = 0
        out[1, 1] = out[2, 2] = t
        out[1, 2], out[2, 1] = a, -a
        return out
    if operator == "tensor_double_divergence":
        out = data.copy()
        b = (data[0, 1] - data[1, 0]) / 2
        out[0, 1], out[1, 0] = b, -b
        out[1, 1] = out[2, 2] = t
        return out
    out = np.zeros_like(data)
    out[0, 0] = data[0, 0]
    out[1, 1] = out[2, 2] = t
    out[1, 2], out[2, 1] = a, -a
    return out