"""C10 — a PDE's interpreted rate, compiled rate and advertised expression agree.

Events: ``eq.evolution_rate(state, t).data``, ``eq.make_pde_rhs(state, backend)(state.data, t)``
for the numpy and numba backends, the rate of ``PDE({var: text})`` built from the class's own
``expression(s)`` text, and — for expression PDEs — the harness's own evaluation of the
right-hand-side text (Python ``ast`` over numpy arrays with the differential operators mapped
to field methods and the documented ``VARIABLE:OPERATOR`` resolution of boundary conditions).
Oracle: pairwise agreement within a round-off budget; class vs text within the 6 significant
digits the text prints for parameters, compared only where the text denotes the same
boundary-value problem.
"""

from __future__ import annotations

import ast

import numpy as np

from .. import gen
from ..models import stencils
from ..runner import ShardResult

PROPERTY = "C10"
LEVEL = "translation_validation"
RULE = (
    "A program is one equation instance: (predefined class with random parameters incl. 0, 1, -1 and "
    "non-printable floats, or an expression PDE from templates with random coefficients using "
    "laplace/gradient/divergence/dot/gradient_squared/integral, nested operators, constants "
    "(scalars and fields), coordinates, t, heaviside, several fields incl. vector fields), a grid "
    "(1-2d Cartesian periodic or not, polar, spherical, cylindrical), a boundary assignment incl. "
    "operator-specific (bc_ops with wildcards), inhomogeneous and time-dependent conditions, a "
    "random state and time. distinct_nontrivial counts distinct (equation kind, parameters class, "
    "grid class, boundary assignment kinds) among programs whose rate is non-constant."
)
ASSUMPTIONS = [
    "class vs text is compared for single-level equations always; for Cahn-Hilliard when both Laplacians carry the same condition; for Kuramoto-Sivashinsky and Swift-Hohenberg (whose text regroups terms under one Laplacian) only with equal homogeneous conditions",
    "the numpy backend's rate uses the compiled differential operators as well (package design); its expression plumbing is what differs from the numba route",
    "round-off budget: 1e-9 of the largest intermediate magnitude (operators amplify by up to (4/dx^2)^2)",
]
REQUIRED = {
    "class_programs": 60,
    "expression_programs": 60,
    "numba_rates_compared": 60,
    "text_routes_compared": 40,
    "own_evaluations_compared": 50,
    "operator_specific_bc_programs": 25,
    "time_dependent_bc_programs": 15,
    "classes_seen": 9,
    "grid_classes_seen": 4,
}


def plan(tier: str, seed: int) -> list[dict]:
    from ..models import curvi  # noqa: F401  (no symbolic models needed here)

    quick = tier == "quick"
    return [{"kind": "rates", "mode": "jit", "cases": 8 if quick else 30, "timeout": 2400 if quick else 6000} for _ in range(16 if quick else 48)]


LOCAL_BCS = [
    ("neumann0", "derivative"), ("dirichlet0", "value"), ("value", {"value": 1.3}), ("derivative", {"derivative": -0.7}),
    ("mixed", {"type": "mixed", "value": 0.8, "const": 0.3}), ("curvature", {"curvature": 0.4}),
    ("value_t", {"value_expression": "0.5 + 0.3*t"}), ("derivative_t", {"derivative_expression": "0.4*sin(t)"}),
]
HOMOGENEOUS = {"neumann0", "dirichlet0"}


def make_bc(rng, gspec, choice=None):
    """Boundary specification for all axes: periodic where the grid is, `choice` elsewhere."""
    names = stencils.axes_names(gspec)
    per = gen.grid_periodic(gspec)
    label, local = LOCAL_BCS[int(rng.integers(len(LOCAL_BCS)))] if choice is None else next(x for x in LOCAL_BCS if x[0] == choice)
    if all(per):
        return "periodic", "periodic"
    if gspec["cls"] in ("PolarSymGrid", "SphericalSymGrid", "CylindricalSymGrid") and label == "curvature" and min(gen.grid_shape(gspec)) < 2:
        label, local = LOCAL_BCS[0]
    return label, {n: ("periodic" if p else local) for n, p in zip(names, per)}


def random_grid(rng):
    kind = int(rng.integers(6))
    if kind == 0:
        return {"cls": "UnitGrid", "shape": [int(rng.choice([6, 9]))], "periodic": [bool(rng.random() < 0.4)]}
    if kind == 1:
        return {"cls": "CartesianGrid", "bounds": [[0.0, 2.0], [-1.0, 0.5]], "shape": [5, 4], "periodic": [bool(rng.random() < 0.5), False]}
    if kind == 2:
        return {"cls": "CartesianGrid", "bounds": [[0.5, 3.0]], "shape": [8], "periodic": [False]}
    if kind == 3:
        return {"cls": "PolarSymGrid", "radius": 2.0 if rng.random() < 0.5 else [0.8, 2.4], "shape": 7}
    if kind == 4:
        return {"cls": "SphericalSymGrid", "radius": 2.0 if rng.random() < 0.5 else [0.8, 2.4], "shape": 7}
    return {"cls": "CylindricalSymGrid", "radius": 2.0, "bounds_z": [0.0, 1.5], "shape": [4, 5], "periodic_z": bool(rng.random() < 0.4)}


def param(rng):
    return float(rng.choice([0.0, 1.0, -1.0, 0.5, 2.0, float(np.round(rng.uniform(0.1, 2), 2)), float(rng.uniform(0.1, 2))]))


def printable(x):
    return float(f"{x:g}") == x


# --------------------------------------------------------------------------------------
# own evaluation of expression right-hand sides


class OwnEvaluator:
    def __init__(self, grid, variables, ranks, bc_default, bc_ops, consts, t):
        import pde

        self.pde, self.grid, self.vars, self.ranks = pde, grid, variables, ranks
        self.bc_default, self.bc_ops, self.consts, self.t = bc_default, bc_ops or {}, consts or {}, t
        self.mag = 0.0

    def bc_for(self, var, op):
        for key, bc in self.bc_ops.items():  # first match in declaration order, then the default
            kv, ko = key.split(":")
            if (kv == var or kv == "*") and (ko == op or ko == "*"):
                return bc
        return self.bc_default

    def note(self, v):
        if np.size(v):
            self.mag = max(self.mag, float(np.max(np.abs(v))))
        return v

    def evaluate(self, var, text, data):
        pde, grid = self.pde, self.grid
        args = {"t": self.t}
        env = {**{k: (v.data if hasattr(v, "data") and not np.isscalar(v) else v) for k, v in self.consts.items()}, **data, "t": self.t, "pi": np.pi}
        for i, ax in enumerate(grid.axes):
            env[ax] = grid.cell_coords[..., i]

        def field(arr):
            arr = np.asarray(arr, dtype=float)
            rank = arr.ndim - grid.num_axes
            cls = [pde.ScalarField, pde.VectorField, pde.Tensor2Field][rank]
            return cls(grid, np.broadcast_to(arr, (grid.dim,) * rank + tuple(grid.shape)).copy())

        def op(name):
            def apply(arr):
                return self.note(field(arr).apply_operator(name, bc=self.bc_for(var, name), args=args).data)

            return apply

        funcs = {
            "laplace": op("laplace"), "gradient": op("gradient"), "divergence": op("divergence"), "gradient_squared": op("gradient_squared"),
            "vector_laplace": op("vector_laplace"), "dot": lambda a, b: np.einsum("i...,i...->...", a, b), "inner": lambda a, b: np.einsum("i...,i...->...", a, b),
            "integral": lambda a: float((np.broadcast_to(grid.cell_volumes, grid.shape) * a).sum()),
            "sin": np.sin, "cos": np.cos, "exp": np.exp, "tanh": np.tanh, "sqrt": np.sqrt, "heaviside": lambda x, h=0.5: np.heaviside(x, h),
        }

        def ev(node):
            if isinstance(node, ast.Expression):
                return ev(node.body)
            if isinstance(node, ast.Constant):
                return float(node.value)
            if isinstance(node, ast.Name):
                return env[node.id]
            if isinstance(node, ast.UnaryOp):
                return -ev(node.operand)
            if isinstance(node, ast.BinOp):
                a, b = ev(node.left), ev(node.right)
                r = {ast.Add: np.add, ast.Sub: np.subtract, ast.Mult: np.multiply, ast.Div: np.divide, ast.Pow: np.power}[type(node.op)](a, b)
                return self.note(r)
            if isinstance(node, ast.Call):
                return self.note(funcs[node.func.id](*[ev(a) for a in node.args]))
            raise ValueError(ast.dump(node)[:80])

        out = ev(ast.parse(text, mode="eval"))
        rank = self.ranks[var]
        return np.broadcast_to(out, (grid.dim,) * rank + tuple(grid.shape)).astype(float)


# --------------------------------------------------------------------------------------


def class_program(rng, gspec, grid):
    import pde

    name = str(rng.choice(["diffusion", "allen-cahn", "cahn-hilliard", "kpz", "kuramoto-sivashinsky", "swift-hohenberg", "wave", "klein-gordon"]))
    l1, bc1 = make_bc(rng, gspec)
    same = rng.random() < 0.5
    l2, bc2 = (l1, bc1) if same else make_bc(rng, gspec)
    state = pde.ScalarField(grid, rng.uniform(-1, 1, size=grid.shape))
    exact = True
    comparable = True
    if name == "diffusion":
        D = param(rng) or 0.7
        eq = pde.DiffusionPDE(diffusivity=D, bc=bc1)
        exact = printable(D)
        text_kwargs = {"bc": bc1}
        labels = (l1,)
    elif name == "allen-cahn":
        g, m = param(rng), param(rng) or 1.0
        eq = pde.AllenCahnPDE(interface_width=g, mobility=m, bc=bc1)
        exact = printable(g) and printable(m)
        text_kwargs = {"bc": bc1}
        labels = (l1,)
    elif name == "cahn-hilliard":
        g = param(rng)
        eq = pde.CahnHilliardPDE(interface_width=g, bc_c=bc1, bc_mu=bc2)
        exact = printable(g)
        comparable = l1 == l2
        text_kwargs = {"bc": bc1}
        labels = (l1, l2)
    elif name == "kpz":
        nu, lm = param(rng), param(rng)
        eq = pde.KPZInterfacePDE(nu=nu, lmbda=lm, bc=bc1)
        exact = printable(nu) and printable(lm)
        text_kwargs = {"bc": bc1}
        labels = (l1,)
    elif name == "kuramoto-sivashinsky":
        nu = param(rng)
        eq = pde.KuramotoSivashinskyPDE(nu=nu, bc=bc1, bc_lap=bc2)
        exact = printable(nu)
        comparable = l1 == l2 and (l1 in HOMOGENEOUS or l1 == "periodic")
        text_kwargs = {"bc": bc1}
        labels = (l1, l2)
    elif name == "swift-hohenberg":
        r, k, d = param(rng), abs(param(rng)), param(rng)
        eq = pde.SwiftHohenbergPDE(rate=r, kc2=k, delta=d, bc=bc1, bc_lap=bc2)
        exact = printable(r - k**2) and printable(2 * k) and printable(d)
        comparable = l1 == l2 and (l1 in HOMOGENEOUS or l1 == "periodic")
        text_kwargs = {"bc": bc1}
        labels = (l1, l2)
    elif name == "wave":
        c = param(rng) or 1.2
        eq = pde.WavePDE(speed=c, bc=bc1)
        exact = printable(c**2)
        state = pde.FieldCollection([state, pde.ScalarField(grid, rng.uniform(-1, 1, size=grid.shape))])
        text_kwargs = {"bc": bc1}
        labels = (l1,)
    else:
        c, m = param(rng) or 1.2, param(rng)
        eq = pde.KleinGordonPDE(speed=c, mass=m, bc=bc1)
        exact = printable(c**2) and printable(m**2)
        state = pde.FieldCollection([state, pde.ScalarField(grid, rng.uniform(-1, 1, size=grid.shape))])
        text_kwargs = {"bc": bc1}
        labels = (l1,)
    texts = eq.expressions if hasattr(eq, "expressions") and name in ("wave", "klein-gordon") else {"c": eq.expression}
    descr = {"class": type(eq).__name__, "text": texts, "bc_labels": labels, "bcs": [bc1, bc2] if len(labels) > 1 else [bc1]}
    return eq, state, texts, text_kwargs, comparable, exact, descr, labels


def expression_program(rng, gspec, grid):
    import pde

    a, b, c = (float(np.round(rng.uniform(0.2, 1.5), 2)) * (1 if rng.random() < 0.7 else -1) for _ in range(3))
    ax0 = stencils.axes_names(gspec)[0]
    templates = [
        ({"u": f"{a}*laplace(u) + {b}*u - u**3 + {c}*{ax0}"}, {"u": 0}),
        ({"u": f"laplace(u**2) - gradient_squared(u) * {a} + sin(t)*{b}"}, {"u": 0}),
        ({"u": f"{a}*laplace(u) + v*u", "v": f"{b}*laplace(v) - u**2 + cos(t)"}, {"u": 0, "v": 0}),
        ({"u": "divergence(p)", "p": f"-gradient(u) * {abs(a)}"}, {"u": 0, "p": 1}),
        ({"u": f"dot(gradient(u), gradient(u)) * {a} + laplace(laplace(u))*{b}"}, {"u": 0}),
        ({"u": f"integral(u) * {a} - u + laplace(u)"}, {"u": 0}),
        ({"u": "k * laplace(u) + f0 * u"}, {"u": 0}),
        ({"u": f"heaviside(u - 0.1) * laplace(u) + {c}*t"}, {"u": 0}),
        ({"u": f"laplace(u + {a}*laplace(u)) - {b}*gradient_squared(u)"}, {"u": 0}),
    ]
    rhs, ranks = templates[int(rng.integers(len(templates)))]
    rd = None
    if rng.random() < 0.15:
        variables = [["u", "v"], ["v", "u"], ["a", "b", "c"]][int(rng.integers(3))]
        n = len(variables)
        Ds = [float(np.round(rng.uniform(0.1, 2.0), 2)) for _ in range(n)]
        diffusivity = Ds[0] if rng.random() < 0.3 else (Ds if rng.random() < 0.5 else np.array(Ds))
        if not isinstance(diffusivity, (list, np.ndarray)):
            Ds = [Ds[0]] * n
        pool = [f"{a} * {variables[0]} - {variables[-1]}**2", f"{variables[0]} * {variables[-1]} + {b}", f"-{variables[-1]} + cos(t) * {c}", "0", f"{b}"]
        srcs = [str(pool[int(rng.integers(len(pool)))]) for _ in range(n)]
        if rng.random() < 0.4:  # dictionary form: only some variables have sources
            keep = [i for i in range(n) if rng.random() < 0.6]
            sources = {variables[i]: srcs[i] for i in reversed(keep)}
            srcs = [srcs[i] if i in keep else "0" for i in range(n)]
        else:
            sources = list(srcs)
        rhs = {v: f"{Ds[i]} * laplace({v}) + {srcs[i]}" for i, v in enumerate(variables)}
        ranks = {v: 0 for v in variables}
        rd = {"variables": variables, "diffusivity": diffusivity.tolist() if isinstance(diffusivity, np.ndarray) else diffusivity, "sources": sources}
        if isinstance(diffusivity, np.ndarray):
            rd["diffusivity_as_array"] = True
    vector = any(r > 0 for r in ranks.values())
    # expression-type conditions are documented to work for scalar operands only
    const_only = ["neumann0", "dirichlet0", "value", "derivative", "mixed"]
    l1, bc1 = make_bc(rng, gspec, str(rng.choice(const_only)) if vector else None)
    bc_ops = None
    labels = [l1]
    if rng.random() < 0.5 and not all(gen.grid_periodic(gspec)):
        l2, bc2 = make_bc(rng, gspec, str(rng.choice(const_only)) if vector else None)
        var0 = list(rhs)[0]
        key = str(rng.choice([f"{var0}:laplace", "*:laplace", f"{var0}:*", "*:gradient_squared", "*:gradient"]))
        bc_ops = {key: bc2}
        labels.append(f"{key}={l2}")
    consts = None
    if "k" in " ".join(rhs.values()):
        consts = {"k": float(np.round(rng.uniform(0.3, 1.2), 2)), "f0": pde.ScalarField(grid, rng.uniform(-1, 1, size=grid.shape))}
    fields = []
    for var, rank in ranks.items():
        if rank == 0:
            fields.append(pde.ScalarField(grid, rng.uniform(-1, 1, size=grid.shape)))
        else:
            data = stencils.admissible_project(gspec, 1, rng.uniform(-1, 1, size=(grid.dim, *(s + 2 for s in grid.shape))))
            fields.append(pde.VectorField(grid, data[(slice(None), *(slice(1, -1),) * grid.num_axes)]))
    state = fields[0] if len(fields) == 1 else pde.FieldCollection(fields)
    if gspec["cls"] == "SphericalSymGrid" and any(r > 0 for r in ranks.values()):
        # vector equations on spherical grids need symmetric conditions
        l1, bc1 = make_bc(rng, gspec, "neumann0")
        bc_ops, labels = None, [l1]
    eq = pde.PDE(rhs, bc=bc1, bc_ops=bc_ops, consts=consts)
    descr = {"rhs": rhs, "bc": bc1, "bc_ops": bc_ops, "bc_labels": labels, "consts": None if consts is None else {"k": consts["k"], "f0": "random field"}}
    if rd is not None:
        # the reaction-diffusion class assembles its right-hand sides itself; `rhs` is the
        # documented formula D_i laplace(c_i) + s_i written independently by the harness
        D_arg = np.array(rd["diffusivity"]) if rd.get("diffusivity_as_array") else rd["diffusivity"]
        eq = pde.ReactionDiffusionPDE(rd["variables"], D_arg, rd["sources"], bc=bc1, bc_ops=bc_ops)
        descr["class"] = "ReactionDiffusionPDE"
        descr["arguments"] = rd
    return eq, state, rhs, ranks, bc1, bc_ops, consts, descr, labels


def split_state(state, variables):
    import pde

    if isinstance(state, pde.FieldCollection):
        return {v: f.data for v, f in zip(variables, state)}
    return {variables[0]: state.data}


def run_shard(spec: dict) -> ShardResult:
    import warnings

    import pde

    warnings.filterwarnings("ignore")
    res = ShardResult(spec)
    rng = np.random.default_rng([spec["seed"], 10, spec["index"]])
    for case_no in range(spec["cases"]):
        gspec = random_grid(rng)
        grid = gen.make_grid(gspec)
        res.seen("grid_classes_seen", gspec["cls"])
        t = float(np.round(rng.uniform(0, 2), 3))
        is_class = case_no % 2 == 0
        try:
            if is_class:
                eq, state, texts, text_kwargs, comparable, exact, descr, labels = class_program(rng, gspec, grid)
                res.seen("classes_seen", descr["class"])
            else:
                eq, state, rhs, ranks, bc1, bc_ops, consts, descr, labels = expression_program(rng, gspec, grid)
                if "class" in descr:
                    res.seen("classes_seen", descr["class"])
        except Exception as exc:
            res.violation(f"constructing the equation raised {type(exc).__name__}: {str(exc)[:200]}", {"grid": gspec})
            continue
        case = {"grid": gspec, "t": t, **descr}
        if any("_t" in str(l) for l in labels):
            res.count("time_dependent_bc_programs")
        if not is_class and descr.get("bc_ops"):
            res.count("operator_specific_bc_programs")
        if is_class and len(labels) > 1 and labels[0] != labels[1]:
            res.count("operator_specific_bc_programs")
        # ---- the three rates -------------------------------------------------------------------
        try:
            r_np = np.array(eq.evolution_rate(state.copy(), t).data)
        except Exception as exc:
            msg = str(exc)
            if "curvature" in msg and "support points" in msg:
                continue
            res.violation(f"evolution_rate raised {type(exc).__name__}: {msg[:300]}", case)
            continue
        scale_state = float(np.abs(state.data).max())
        lap_amp = float(sum(4 / d**2 for d in grid.discretization))
        mag = max(float(np.abs(r_np).max()), scale_state) * (1 + lap_amp) * (1 + lap_amp * (1 if (is_class and descr["class"] in ("CahnHilliardPDE", "KuramotoSivashinskyPDE", "SwiftHohenbergPDE")) or (not is_class and "laplace(laplace" in str(descr["rhs"]) or "laplace(u +" in str(descr.get("rhs"))) else 0))
        tol = 1e-9 * mag + 1e-12
        results = {}
        for backend in ("numpy", "numba"):
            try:
                rhs_fn = eq.make_pde_rhs(state.copy(), backend=backend)
                results[backend] = np.array(rhs_fn(state.data.copy(), t))
            except Exception as exc:
                res.violation(f"make_pde_rhs(backend={backend!r}) raised {type(exc).__name__}: {str(exc)[:300]} where evolution_rate returned numbers", case)
        for backend, r in results.items():
            if backend == "numba":
                res.count("numba_rates_compared")
            if r.shape != r_np.shape or not np.isfinite(r).all() and np.isfinite(r_np).all() or float(np.abs(r - r_np).max()) > tol:
                res.violation(
                    f"compiled rate ({backend}) differs from evolution_rate", case,
                    max_abs_diff=float(np.abs(r - r_np).max()) if r.shape == r_np.shape else None, scale=float(np.abs(r_np).max()), tolerance=tol,
                )
        # ---- class vs its own text ------------------------------------------------------------------
        if is_class:
            res.count("class_programs")
            if comparable:
                try:
                    eq_text = pde.PDE(texts, **text_kwargs)
                    r_text = np.array(eq_text.evolution_rate(state.copy(), t).data)
                    res.count("text_routes_compared")
                    tol_text = tol if exact else 2e-5 * mag
                    if float(np.abs(r_text - r_np).max()) > tol_text:
                        res.violation(
                            "generic expression PDE built from the class's own text differs from the class", case,
                            max_abs_diff=float(np.abs(r_text - r_np).max()), tolerance=tol_text, parameters_exactly_printable=exact,
                        )
                    if case_no % 4 == 0:
                        r_text_nb = np.array(eq_text.make_pde_rhs(state.copy(), backend="numba")(state.data.copy(), t))
                        res.count("numba_rates_compared")
                        if float(np.abs(r_text_nb - r_text).max()) > tol:
                            res.violation("compiled rate of the text PDE differs from its evolution_rate", case)
                except Exception as exc:
                    res.violation(f"expression PDE from the class's text raised {type(exc).__name__}: {str(exc)[:300]}", case)
            else:
                res.count("text_not_comparable_different_boundary_problem")
            key = (descr["class"], tuple(labels), gspec["cls"], "exact" if exact else "rounded")
        else:
            res.count("expression_programs")
            try:
                own = OwnEvaluator(grid, list(rhs), ranks, bc1, bc_ops, consts, t)
                data = split_state(state, list(rhs))
                parts = [own.evaluate(var, text, data) for var, text in rhs.items()]
                r_own = np.concatenate([p.reshape((-1, *grid.shape)) for p in parts]).reshape(r_np.shape)
                res.count("own_evaluations_compared")
                tol_own = 1e-9 * max(own.mag, mag) + 1e-12
                if float(np.abs(r_own - r_np).max()) > tol_own:
                    res.violation(
                        "evolution_rate differs from the harness's evaluation of the right-hand-side text", case,
                        max_abs_diff=float(np.abs(r_own - r_np).max()), tolerance=tol_own,
                    )
            except Exception as exc:
                res.notes.append(f"own evaluation failed: {type(exc).__name__}: {exc}")
                res.count("own_evaluation_failures")
            key = (tuple(sorted(rhs.values()))[0][:25], tuple(labels), gspec["cls"])
        res.case(key, nontrivial=float(np.ptp(r_np)) > 0)
        if case_no < 2:
            res.sample({**{k: str(v)[:300] for k, v in case.items()}, "max_rate": float(np.abs(r_np).max())})
    return res
