"""C18 — Poisson/Laplace solvers return solutions of the discrete problem.

Events: ``u = solve_poisson_equation(rhs, bc)`` / ``solve_laplace_equation(grid, bc)`` and the
residual ``u.laplace(bc) - rhs`` obtained by feeding the result back into the discrete
Laplacian (operator route, *not* the sparse matrix the solver used).
Oracle: the affine map ``u -> A u + b`` of the discrete Laplacian with the given conditions is
extracted densely from the operator route (unit vectors); solvability of ``A u = rhs - b`` is
decided by an independent dense least-squares solve.  Solvable problems (regular ones with any
right-hand side, singular ones with right-hand sides from the range) must be solved to solver
accuracy, unsolvable ones must raise.  The solver's sparse matrix is additionally compared with
the extracted map.
"""

from __future__ import annotations

import numpy as np

from .. import gen
from ..models import bc as bcm
from ..runner import ShardResult
from .c02 import grid_info

PROPERTY = "C18"
LEVEL = "exploration"
RULE = (
    "A case is one (grid with >= 2 cells per axis incl. annular/periodic/anisotropic, per-side "
    "conditions value/derivative/mixed/curvature (homogeneous, constant, per-face array) or periodic, "
    "right-hand side: generic / from the range of the discrete operator / zero (Laplace equation)). "
    "Distinct = distinct (grid class, num_axes, hole, per-side (kind, value form), regular or "
    "singular, rhs kind, expected outcome); non-trivial = at least one inhomogeneous or "
    "non-Dirichlet side and a non-constant right-hand side or boundary data."
)
ASSUMPTIONS = [
    "solver accuracy: its own acceptance is |A u - (rhs-b)| <= 1e-5 + 1e-5*|rhs-b| elementwise; the monitor allows 1e-4*(1 + max|rhs-b|) plus round-off of the operator application",
    "solvability is decided by dense least squares on the operator-route map: relative residual < 1e-9 solvable, > 1e-3 unsolvable, in between not judged; regular systems with condition number > 1e11 not judged",
    "expression-type conditions are not supported by the matrix representation (documented NotImplementedError) and are not generated",
]
REQUIRED = {
    "problems_solved_and_verified": 200,
    "unsolvable_problems_rejected": 20,
    "singular_compatible_solved": 20,
    "matrix_vs_operator_compared": 200,
    "curvature_sides": 30,
    "annular_inner_conditions": 20,
    "grid_classes_seen": 5,
}


def plan(tier: str, seed: int) -> list[dict]:
    quick = tier == "quick"
    return [{"kind": "poisson", "mode": "jit", "cases": 80 if quick else 400, "timeout": 1500 if quick else 4000} for _ in range(16 if quick else 48)]


def extract_affine(field, bc):
    """Dense (A, b) of u -> laplace(u, bc) through the operator route."""
    grid = field.grid
    n = int(np.prod(grid.shape))
    f = field.copy()
    f.data = 0.0
    b = f.laplace(bc).data.ravel().copy()
    A = np.empty((n, n))
    for k in range(n):
        f.data = 0.0
        f.data.flat[k] = 1.0
        A[:, k] = f.laplace(bc).data.ravel() - b
    return A, b


def run_shard(spec: dict) -> ShardResult:
    import importlib

    import pde

    res = ShardResult(spec)
    rng = np.random.default_rng([spec["seed"], 18, spec["index"]])
    if spec["index"] == 0:
        # fixed regression cases: singular matrices with incompatible data for which the direct solver
        # returns round-off dominated values (repaired finding F27); they must be reported as errors
        for g, bc in [
            (pde.PolarSymGrid(1.307, 5), {"r-": {"second_derivative": 1.13}, "r+": {"type": "curvature", "value": -1.8}}),
            (pde.PolarSymGrid(2.0, 8), {"r-": {"derivative": 0}, "r+": {"type": "curvature", "value": 1.0}}),
            (pde.SphericalSymGrid(1.5, 6), {"r-": {"derivative": 0}, "r+": {"type": "curvature", "value": -0.7}}),
            (pde.UnitGrid([6]), {"x-": {"derivative": 1.0}, "x+": {"derivative": 1.0}}),
        ]:
            case = {"grid": repr(g), "bc": bc, "rhs": "zero", "fixed_case": True}
            res.count("fixed_unsolvable_cases")
            try:
                sol = pde.solve_laplace_equation(g, bc)
            except RuntimeError:
                continue
            except Exception as exc:
                res.violation(f"solver raised {type(exc).__name__}: {str(exc)[:200]}", case)
                continue
            residual = float(np.abs(sol.laplace(bc).data).max())
            if not residual <= 1e-4 * (1 + float(np.abs(sol.data).max()) * 1e-12):
                res.violation("problem without a solution returned a field instead of an error", case, residual=residual, max_abs_value=float(np.abs(sol.data).max()))
    for case_no in range(spec["cases"]):
        gspec = gen.random_grid_spec(rng, sizes=(2, 3, 4, 5, 8), max_cells=100, tame=rng.random() < 0.8)
        if gspec["cls"] in ("UnitGrid", "CartesianGrid") and len(gen.grid_shape(gspec)) == 3:
            gspec["shape"] = [min(s, 5) for s in gspec["shape"]]
        grid = gen.make_grid(gspec)
        info = grid_info(gspec)
        cls = gspec["cls"]
        res.seen("grid_classes_seen", cls)
        hole = cls not in ("UnitGrid", "CartesianGrid") and info["bounds"][0][0] > 0
        style = str(rng.choice(["any", "any", "neumann", "dirichlet"]))
        structure = {"axes": []}
        for axis in range(len(info["shape"])):
            if info["periodic"][axis]:
                structure["axes"].append({"periodic": "anti-periodic" if rng.random() < 0.3 else "periodic"})
                continue
            sides = []
            for upper in (False, True):
                force = {"neumann": "derivative", "dirichlet": "value"}.get(style)
                c = bcm.gen_condition(rng, dim=info["dim"], rank=0, shape=info["shape"], axis=axis, upper=upper,
                                      bounds=info["bounds"], axes_names=info["axes"], force=force)
                if c["vform"] in ("expr", "texpr"):
                    c = bcm.gen_condition(rng, dim=info["dim"], rank=0, shape=info["shape"], axis=axis, upper=upper,
                                          bounds=info["bounds"], axes_names=info["axes"], force=c["kind"])
                    if c["vform"] in ("expr", "texpr"):
                        c.update({"vform": "const", "v": 0.5, "alias": bcm.ALIASES[(c["kind"], False)][0]})
                        c.pop("v_text", None), c.pop("v_fn", None), c.pop("b_text", None), c.pop("b_fn", None), c.pop("value_cell", None)
                        if c["kind"] == "mixed":
                            c.update({"beta": 0.3, "bform": "const"})
                if c["kind"] == "mixed" and np.any(np.isinf(c["v"])):
                    c["v"] = 1.5
                if c["kind"] == "curvature":
                    res.count("curvature_sides")
                if hole and axis == 0 and not upper:
                    res.count("annular_inner_conditions")
                sides.append(c)
            structure["axes"].append({"sides": sides})
        spec_data, fmt = bcm.render_spec(rng, structure, info["axes"], dict(grid.boundary_names), accept_lists=False)
        descr = [(ax["periodic"],) if "periodic" in ax else tuple((c["kind"], c["vform"]) for c in ax["sides"]) for ax in structure["axes"]]
        case = {"grid": gspec, "bc": spec_data, "structure": descr}
        probe = pde.ScalarField(grid, 0.0)
        try:
            A, b = extract_affine(probe, spec_data)
            bcs = grid.get_boundary_conditions(spec_data)
        except Exception as exc:
            res.violation(f"operator route raised {type(exc).__name__}: {str(exc)[:200]}", case)
            continue
        n = A.shape[0]
        # ---- the solver's own matrix vs the operator route ------------------------------
        mod = {"UnitGrid": "cartesian", "CartesianGrid": "cartesian", "PolarSymGrid": "polar_sym",
               "SphericalSymGrid": "spherical_sym", "CylindricalSymGrid": "cylindrical_sym"}[cls]
        try:
            m = importlib.import_module(f"pde.backends.scipy.operators.{mod}")
            M, v = m._get_laplace_matrix(bcs)
            M = np.asarray(M.todense())
            v = np.asarray(v.todense()).ravel()
            res.count("matrix_vs_operator_compared")
            scale = np.abs(A).max() + np.abs(b).max() + 1e-300
            # the operator route adds and cancels stencil terms of size 4/dx^2 (e.g. curvature conditions on
            # both sides of a two-cell axis cancel that axis completely): its round-off scales with them
            opscale = sum(4.0 * (nn / (hi_ - lo_)) ** 2 for (lo_, hi_), nn in zip(info["bounds"], info["shape"]))
            tol_m = 1e-10 * scale + 256 * 2.220446049250313e-16 * opscale * (1.0 + np.abs(b).max() / max(opscale, 1e-300))
            if np.abs(M - A).max() > tol_m or np.abs(v - b).max() > tol_m:
                k = np.unravel_index(int(np.argmax(np.abs(M - A))), A.shape)
                res.violation(
                    "sparse matrix representation differs from the discrete Laplacian with the same conditions", case,
                    entry=list(map(int, k)), matrix=M[k], operator=A[k], max_vector_diff=float(np.abs(v - b).max()),
                )
        except NotImplementedError:
            res.count("matrix_route_unavailable")
        except Exception as exc:
            res.violation(f"_get_laplace_matrix raised {type(exc).__name__}: {str(exc)[:200]}", case)
        # ---- right-hand sides -------------------------------------------------------------
        sv = np.linalg.svd(A, compute_uv=False)
        opscale = sum(4.0 * (nn / (hi_ - lo_)) ** 2 for (lo_, hi_), nn in zip(info["bounds"], info["shape"]))
        if sv[0] < 1e-6 * opscale:
            # the conditions cancel the operator (e.g. curvature on both sides of a two-cell axis): the
            # extracted map is pure round-off and solvability cannot be decided from it
            res.count("degenerate_zero_operator_not_judged")
            continue
        singular = sv[-1] < 1e-9 * sv[0]
        if not singular and sv[0] / sv[-1] > 1e11:
            res.count("ill_conditioned_not_judged")
            continue
        rhs_kinds = ["generic", "range"] + (["zero"] if rng.random() < 0.4 else [])
        for kind in rhs_kinds:
            if kind == "generic":
                rhs = rng.uniform(-1, 1, size=n) * float(rng.choice([1.0, 10.0, 0.1]))
            elif kind == "range":
                rhs = A @ rng.uniform(-1, 1, size=n) + b
                rhs = rhs / max(1.0, np.abs(rhs).max() / 10)  # keep magnitudes moderate ... stays in range only if scaled consistently
                rhs = A @ np.linalg.lstsq(A, rhs - b, rcond=None)[0] + b
            else:
                rhs = np.zeros(n)
            target = rhs - b
            sol, *_ = np.linalg.lstsq(A, target, rcond=None)
            resid = float(np.abs(A @ sol - target).max())
            ref = float(np.abs(target).max()) + 1e-300
            if resid < 1e-9 * ref + 1e-12:
                expected = "solve"
            elif resid > 1e-3 * ref and resid > 1e-3:
                expected = "raise"
            else:
                res.count("borderline_not_judged")
                continue
            rhs_field = pde.ScalarField(grid, rhs.reshape(grid.shape))
            sub = {**case, "rhs": kind, "singular": bool(singular), "expected": expected}
            try:
                if kind == "zero":
                    u = pde.solve_laplace_equation(grid, spec_data)
                else:
                    u = pde.solve_poisson_equation(rhs_field, spec_data)
                outcome = "solve"
            except RuntimeError:
                outcome = "raise"
            except Exception as exc:
                res.violation(f"solver raised undocumented {type(exc).__name__}: {str(exc)[:200]}", sub)
                continue
            if expected == "raise":
                if outcome == "solve":
                    back = u.laplace(spec_data).data.ravel()
                    res.violation(
                        "problem without a solution returned a field instead of an error", sub,
                        residual=float(np.abs(back - rhs).max()), least_squares_residual=resid,
                    )
                else:
                    res.count("unsolvable_problems_rejected")
            else:
                if outcome == "raise":
                    if singular:
                        # The statement promises that *returned* fields solve the problem and that
                        # unsolvable problems raise; it does not promise that the iterative
                        # least-squares fallback reaches solver accuracy on every singular but
                        # compatible system.  An error is not a wrong field: recorded, not judged.
                        res.count("observation_singular_compatible_problem_rejected")
                    else:
                        res.violation("solvable problem was rejected by the solver", sub, least_squares_residual=resid)
                else:
                    back = u.laplace(spec_data).data.ravel()
                    err = float(np.abs(back - rhs).max())
                    tol = 1e-4 * (1 + ref) + 1e-9 * float(np.abs(A).max() * np.abs(u.data).max())
                    res.stat_max("residual_over_tolerance", err / tol)
                    if not np.isfinite(err) or err > tol:
                        res.violation(
                            f"returned field does not solve the discrete problem: residual {err:.3g} (tolerance {tol:.3g})", sub,
                            max_abs_solution=float(np.abs(u.data).max()),
                        )
                    else:
                        res.count("problems_solved_and_verified")
                        if singular:
                            res.count("singular_compatible_solved")
            nontrivial = any("sides" in ax and any(c["kind"] != "value" or c["vform"] != "zero" for c in ax["sides"]) for ax in structure["axes"]) and kind != "zero"
            res.case((cls, len(info["shape"]), hole, descr, bool(singular), kind, expected), nontrivial=nontrivial or kind == "zero")
        if case_no < 2:
            res.sample({**case, "cells": n, "singular": bool(singular), "condition": float(sv[0] / max(sv[-1], 1e-300))})
    return res
