"""C04 — results never depend on what was computed earlier in the process.

Events: a *history* is a random sequence of declarative requests (operator constructions with
boundary conditions, field methods, raw kernels, interpolations, expression functions,
evolution rates of class and expression PDEs on several backends, short solves) executed in one
interpreter that keeps its grids, equations and the process-wide backends (hence every cache)
alive; for every request the result array is recorded.  In parallel a ``sys.monitoring`` probe
on the shared cache wrapper records (method, owner, canonical description of the arguments,
key) of every cached call.

Oracles: (1) fresh-interpreter oracle — every distinct request is also evaluated in its own
fresh process; the history's result must equal it; (2) key-collision checker — two cache events
on the same owner/method with equal key but different canonical descriptions; (3)
memory-binding checker — after operations that re-bind a field's array (collection building,
from_data) or edit it in place, interpolation must follow the field's *current* data
(independent interpolation model).
"""

from __future__ import annotations

import hashlib
import json
import os
import shutil
import subprocess
import sys
import tempfile

import numpy as np

from ..runner import PY, VERIF, ShardResult, shard_env

PROPERTY = "C04"
LEVEL = "exploration"
RULE = (
    "A case is one request executed inside a history (16/160 histories of 18-36 requests drawn with "
    "replacement from a pool that maximises near-collisions: equal-but-distinct grids and grids "
    "differing in one attribute or only in class, boundary conditions that coincide in every "
    "attribute but the class / the side / the value, operators differing only in kwargs or dtype, "
    "equations sharing objects across backends). Distinct = distinct request descriptions; "
    "non-trivial = the request was executed after at least one other request that differs from it "
    "in exactly one attribute (so that a wrongly shared cache entry would be hit)."
)
ASSUMPTIONS = [
    "global configuration is fixed within a history (as the statement says); every history runs in the default configuration",
    "fresh and in-history results are compared at 1e-12 of the result magnitude (same machine code in both; observed differences are zero)",
    "reach is the request pool: a collision between two configurations that are never both in the pool is not seen",
]
REQUIRED = {
    "history_requests_compared": 250,
    "fresh_evaluations": 40,
    "near_collision_pairs_executed": 150,
    "cache_events_observed": 300,
    "cache_keys_observed": 60,
    "rebinding_probes": 40,
    "request_kinds_seen": 8,
}

GRIDS = {
    "U6": {"cls": "UnitGrid", "shape": [6], "periodic": [False]},
    "U6b": {"cls": "UnitGrid", "shape": [6], "periodic": [False]},  # equal but distinct object
    "U6p": {"cls": "UnitGrid", "shape": [6], "periodic": [True]},
    "C6": {"cls": "CartesianGrid", "bounds": [[0.0, 6.0]], "shape": [6], "periodic": [False]},  # same geometry, other class
    "C6w": {"cls": "CartesianGrid", "bounds": [[0.0, 6.5]], "shape": [6], "periodic": [False]},
    "U64": {"cls": "UnitGrid", "shape": [6, 4], "periodic": [False, False]},
    "P6": {"cls": "PolarSymGrid", "radius": 2.0, "shape": 6},
    "S6": {"cls": "SphericalSymGrid", "radius": 2.0, "shape": 6},  # same bounds and shape as P6
    # twins whose bounds differ by less than any plausible comparison tolerance
    "C6e": {"cls": "CartesianGrid", "bounds": [[0.0, 6.0000005]], "shape": [6], "periodic": [False]},
    "F1": {"cls": "CartesianGrid", "bounds": [[1000.0, 1001.0]], "shape": [6], "periodic": [False]},
    "F1e": {"cls": "CartesianGrid", "bounds": [[1000.0, 1001.004]], "shape": [6], "periodic": [False]},
    "S6e": {"cls": "SphericalSymGrid", "radius": 2.0000002, "shape": 6},
    # twins whose parameters differ only by numbers with equal Python hashes (hash(-1) == hash(-2))
    "Cm1": {"cls": "CartesianGrid", "bounds": [[-1.0, 5.0]], "shape": [6], "periodic": [False]},
    "Cm2": {"cls": "CartesianGrid", "bounds": [[-2.0, 5.0]], "shape": [6], "periodic": [False]},
    "C2m1": {"cls": "CartesianGrid", "bounds": [[0.0, 3.0], [-1.0, 1.0]], "shape": [3, 4], "periodic": [False, True]},
    "C2m2": {"cls": "CartesianGrid", "bounds": [[0.0, 3.0], [-2.0, 1.0]], "shape": [3, 4], "periodic": [False, True]},
}
BCS = {
    "value0": {"value": 0}, "derivative0": {"derivative": 0}, "curvature0": {"curvature": 0}, "mixed0": {"mixed": 0},
    "value1": {"value": 1}, "derivative1": {"derivative": 1}, "mixed1": {"type": "mixed", "value": 1, "const": 0},
    "mixed1c": {"type": "mixed", "value": 1, "const": 1},
    "valuem1": {"value": -1}, "valuem2": {"value": -2}, "derivativem1": {"derivative": -1.0}, "derivativem2": {"derivative": -2.0},
    "mixed1cm1": {"type": "mixed", "value": 1, "const": -1}, "mixed1cm2": {"type": "mixed", "value": 1, "const": -2},
    "lowV_highD": None, "lowD_highV": None,  # filled per grid (sides)
    "value_t": {"value_expression": "t"}, "derivative_t": {"derivative_expression": "t"},
    "periodic": "periodic", "antiperiodic": "anti-periodic", "auto_neumann": "auto_periodic_neumann", "auto_dirichlet": "auto_periodic_dirichlet",
}


def bc_spec(name, grid):
    if name in ("lowV_highD", "lowD_highV"):
        ax = grid.axes[0]
        a, b = ({"value": 0}, {"derivative": 0}) if name == "lowV_highD" else ({"derivative": 0}, {"value": 0})
        spec = {ax + "-": a, ax + "+": b}
        for other in grid.axes[1:]:
            spec[other] = {"derivative": 0}
        return spec
    return BCS[name]


# --------------------------------------------------------------------------------------
# request pool


def build_pool(rng, size):
    pool = []
    nonper = ["U6", "U6b", "C6", "C6w", "U64", "P6", "S6", "Cm1", "Cm2", "C2m1", "C2m2", "C6e", "F1", "F1e", "S6e"]
    local = ["value0", "derivative0", "curvature0", "mixed0", "value1", "derivative1", "mixed1", "mixed1c", "lowV_highD", "lowD_highV", "value_t", "derivative_t", "auto_neumann", "auto_dirichlet",
             "valuem1", "valuem2", "derivativem1", "derivativem2", "mixed1cm1", "mixed1cm2"]
    ops = [("laplace", {}), ("gradient", {}), ("gradient", {"method": "forward"}), ("gradient_squared", {}), ("gradient_squared", {"central": False})]

    def add(req):
        if req not in pool:
            pool.append(req)

    # operators with boundary conditions: dense cross product on few keys
    for g in ["U6", "U6b", "C6", "P6", "S6"]:
        for bc in local[:6] + ["lowV_highD", "lowD_highV"]:
            add({"kind": "make_operator", "grid": g, "op": "laplace", "kwargs": {}, "bc": bc, "dtype": "float64", "seed": 1})
    # operators that differ only in their keyword arguments (dense: both variants on the same key)
    for g in ["U6", "C6", "U64"]:
        for op, kw in ops[1:]:
            for bc in ("value0", "derivative1"):
                add({"kind": "make_operator", "grid": g, "op": op, "kwargs": kw, "bc": bc, "dtype": "float64", "seed": 1})
                add({"kind": "field_method", "grid": g, "op": op, "kwargs": kw, "bc": bc, "seed": 1})
            add({"kind": "no_bc", "grid": g, "op": op, "kwargs": kw, "seed": 1})
    # twins with colliding number hashes: grids, boundary values, fill values
    for g in ["Cm1", "Cm2"]:
        for bc in ["valuem1", "valuem2", "derivativem1", "derivativem2", "mixed1cm1", "mixed1cm2"]:
            add({"kind": "make_operator", "grid": g, "op": "laplace", "kwargs": {}, "bc": bc, "dtype": "float64", "seed": 1})
        for fill in (-1.0, -2.0):
            add({"kind": "interpolate", "grid": g, "bc": "none", "fill": fill, "seed": 1, "frac": 0.3})
    for g in ["C2m1", "C2m2"]:
        add({"kind": "make_operator", "grid": g, "op": "laplace", "kwargs": {}, "bc": "auto_neumann", "dtype": "float64", "seed": 1})
        add({"kind": "rate", "eq": "diffusion", "grid": g, "bc": "auto_neumann", "bc2": "value0", "backend": "numba", "shared": True, "seed": 0})
    for _ in range(size):
        g = str(rng.choice(nonper))
        op, kw = ops[int(rng.integers(len(ops)))]
        bc = str(rng.choice(local))
        kind = str(rng.choice(["make_operator", "field_method", "no_bc", "interpolate", "expression", "rate", "rate", "solve", "make_operator"]))
        if kind == "make_operator":
            add({"kind": kind, "grid": g, "op": op, "kwargs": kw, "bc": bc, "dtype": str(rng.choice(["float64", "float64", "complex128"])), "seed": int(rng.integers(3))})
        elif kind == "field_method":
            add({"kind": kind, "grid": g, "op": op, "kwargs": kw, "bc": bc, "seed": int(rng.integers(3))})
        elif kind == "no_bc":
            add({"kind": kind, "grid": g, "op": op, "kwargs": kw, "seed": int(rng.integers(3))})
        elif kind == "interpolate":
            add({"kind": kind, "grid": g, "bc": str(rng.choice(["none", "value0", "derivative0", "value1"])), "fill": [None, 0.5, -1.0, -2.0][int(rng.integers(4))], "seed": int(rng.integers(3)), "frac": float(np.round(rng.uniform(0.1, 0.9), 2))})
        elif kind == "expression":
            add({"kind": kind, "text": str(rng.choice(["x**2 + y", "x**2 - y", "sin(x)*y", "sin(y)*x", "heaviside(x - y)", "heaviside(y - x)"])), "backend": str(rng.choice(["numpy", "numba"])), "single_arg": bool(rng.random() < 0.3)})
        elif kind == "rate":
            eqk = str(rng.choice(["diffusion", "cahn-hilliard", "expr1", "expr2"]))
            add({"kind": kind, "eq": eqk, "grid": str(rng.choice(["U6", "U6b", "C6", "P6", "S6", "U6p", "C6e", "F1", "F1e", "S6e"])), "bc": str(rng.choice(["value0", "derivative0", "value1", "auto_neumann"])),
                 "bc2": str(rng.choice(["value0", "derivative0", "curvature0"])), "backend": str(rng.choice(["numpy", "numba", "interpreted"])), "shared": bool(rng.random() < 0.6), "seed": int(rng.integers(2))})
        else:
            add({"kind": "solve", "grid": str(rng.choice(["U6", "C6", "U6p"])), "bc": str(rng.choice(["value0", "derivative0", "auto_neumann"])), "solver": str(rng.choice(["euler", "adams-bashforth", "runge-kutta"])),
                 "backend": str(rng.choice(["numpy", "numba"])), "steps": int(rng.choice([3, 4]))})
    # one equation object applied to states on different grids and through different backends
    for eqk, bc, bc2 in (("diffusion", "value1", "value0"), ("cahn-hilliard", "value0", "derivative0"), ("expr2", "derivative0", "value0")):
        for g in ("U6", "C6w", "P6", "S6", "C6", "C6e", "F1", "F1e", "S6e"):
            for backend in ("numpy", "numba"):
                add({"kind": "rate", "eq": eqk, "grid": g, "bc": bc, "bc2": bc2, "backend": backend, "shared": True, "seed": 0})
    # equations with field-valued constants that are modified in place between requests
    for g in ("U6", "U64", "P6"):
        for kval in (1.0, 5.0):
            for backend in ("numba", "numpy", "interpreted", "solve-numba", "solve-numpy"):
                add({"kind": "rate_const", "grid": g, "kval": kval, "backend": backend, "seed": 0})
    for g in ["U6p"]:
        for bc in ("periodic", "antiperiodic"):
            add({"kind": "make_operator", "grid": g, "op": "laplace", "kwargs": {}, "bc": bc, "dtype": "float64", "seed": 1})
            add({"kind": "field_method", "grid": g, "op": "gradient", "kwargs": {}, "bc": bc, "seed": 1})
    return pool


def differs_in_one(a, b):
    if a.get("kind") != b.get("kind"):
        return False
    keys = set(a) | set(b)
    return sum(a.get(k) != b.get(k) for k in keys) == 1


# --------------------------------------------------------------------------------------
# execution of requests


class Context:
    """Objects that stay alive during a history (a fresh evaluation uses a new Context)."""

    def __init__(self):
        self.grids = {}
        self.eqs = {}

    def grid(self, name):
        from .. import gen

        if name not in self.grids:
            self.grids[name] = gen.make_grid(GRIDS[name])
        return self.grids[name]


def make_field(grid, seed, dtype="float64", rank=0):
    import pde

    rng = np.random.default_rng([77, seed, grid.num_axes, grid.shape[0]])
    cls = [pde.ScalarField, pde.VectorField][rank]
    shape = (grid.dim,) * rank + tuple(grid.shape)
    data = rng.uniform(-1, 1, size=shape)
    if dtype == "complex128":
        data = data + 1j * rng.uniform(-1, 1, size=shape)
    return cls(grid, data, dtype=dtype)


def execute(req, ctx: Context):
    import pde
    from pde.backends.numba.utils import numba_dict

    kind = req["kind"]
    T = 0.75
    if kind in ("make_operator", "field_method", "no_bc", "interpolate"):
        grid = ctx.grid(req["grid"])
    if kind == "make_operator":
        f = make_field(grid, req["seed"], req["dtype"])
        bc = bc_spec(req["bc"], grid)
        op = grid.make_operator(req["op"], bc=bc, backend="numba", **req["kwargs"])
        needs_t = req["bc"].endswith("_t")
        return np.asarray(op(f.data.copy(), args=numba_dict(t=T)) if needs_t else op(f.data.copy()))
    if kind == "field_method":
        f = make_field(grid, req["seed"])
        bc = bc_spec(req["bc"], grid)
        return np.asarray(f.apply_operator(req["op"], bc=bc, args={"t": T}, **req["kwargs"]).data)
    if kind == "no_bc":
        f = make_field(grid, req["seed"])
        f._data_full[...] = np.random.default_rng(req["seed"]).uniform(-1, 1, size=f._data_full.shape)
        info = pde.backends.get_backend("numba").get_operator_info(grid, req["op"])
        out = np.empty((grid.dim,) * info.rank_out + tuple(grid.shape))
        grid.make_operator_no_bc(req["op"], backend="numba", **req["kwargs"])(f._data_full, out)
        return out
    if kind == "interpolate":
        # one field object per (grid, seed) and history: per-object caches see every fill/bc variant
        fkey = ("field", req["grid"], req["seed"])
        f = ctx.eqs.get(fkey)
        if f is None:
            f = ctx.eqs[fkey] = make_field(grid, req["seed"])
        lo = np.array([b[0] for b in grid.axes_bounds])
        hi = np.array([b[1] for b in grid.axes_bounds])
        fracs = (req["frac"], 0.5 * req["frac"], 0.97) + ((1.6,) if req["fill"] is not None and not any(grid.periodic) else ())
        pts = np.array([lo + (hi - lo) * fr for fr in fracs])  # with a fill value: one point outside
        bc = None if req["bc"] == "none" else bc_spec(req["bc"], grid)
        return np.asarray(f.interpolate(pts, bc=bc, fill=req["fill"]))
    if kind == "expression":
        from pde.tools.expressions import ScalarExpression

        key = ("expr", req["text"])
        e = ctx.eqs.get(key)
        if e is None:
            e = ctx.eqs[key] = ScalarExpression(req["text"], signature=["x", "y"])
        fn = e.get_function(req["backend"], single_arg=req["single_arg"])
        x, y = np.array([0.3, 1.2, 0.8]), np.array([0.9, 0.4, 0.8001])
        return np.asarray(fn(np.array([x, y])) if req["single_arg"] else fn(x, y), dtype=float)
    if kind == "rate":
        grid = ctx.grid(req["grid"])
        per = all(grid.periodic)
        bc = "periodic" if per else bc_spec(req["bc"], grid)
        bc2 = "periodic" if per else bc_spec(req["bc2"], grid)
        key = ("eq", req["eq"], req["bc"], req["bc2"], per)
        eq = ctx.eqs.get(key) if req["shared"] else None
        if eq is None:
            if req["eq"] == "diffusion":
                eq = pde.DiffusionPDE(0.7, bc=bc)
            elif req["eq"] == "cahn-hilliard":
                eq = pde.CahnHilliardPDE(interface_width=0.8, bc_c=bc, bc_mu=bc2)
            elif req["eq"] == "expr1":
                eq = pde.PDE({"c": "0.5 * laplace(c) - c**3"}, bc=bc)
            else:
                eq = pde.PDE({"c": "laplace(c**2) - 0.3 * gradient_squared(c)"}, bc=bc, bc_ops={"c:gradient_squared": bc2})
            if req["shared"]:
                ctx.eqs[key] = eq
        f = make_field(grid, req["seed"])
        if req["backend"] == "interpreted":
            return np.asarray(eq.evolution_rate(f, T).data)
        return np.asarray(eq.make_pde_rhs(f, backend=req["backend"])(f.data.copy(), T))
    if kind == "rate_const":
        # equation with a field-valued constant; the constant field and the equation live as long
        # as the history and the constant is modified IN PLACE before every request
        grid = ctx.grid(req["grid"])
        kkey, ekey = ("const-field", req["grid"]), ("const-eq", req["grid"])
        k = ctx.eqs.get(kkey)
        if k is None:
            k = ctx.eqs[kkey] = pde.ScalarField(grid, 1.0)
        k.data[...] = req["kval"] * (1 + 0.1 * np.arange(grid.shape[0]).reshape((-1,) + (1,) * (grid.num_axes - 1)))
        eq = ctx.eqs.get(ekey)
        if eq is None:
            eq = ctx.eqs[ekey] = pde.PDE({"c": "k * c + laplace(c)"}, consts={"k": k}, bc="auto_periodic_neumann")
        f = make_field(grid, req["seed"])
        if req["backend"] == "interpreted":
            return np.asarray(eq.evolution_rate(f, T).data)
        if req["backend"].startswith("solve-"):
            return np.asarray(eq.solve(f, t_range=0.1, dt=0.05, solver="euler", backend=req["backend"][6:], tracker=None).data)
        return np.asarray(eq.make_pde_rhs(f, backend=req["backend"])(f.data.copy(), T))
    if kind == "solve":
        grid = ctx.grid(req["grid"])
        bc = "periodic" if all(grid.periodic) else bc_spec(req["bc"], grid)
        key = ("solve-eq", req["bc"], all(grid.periodic))
        eq = ctx.eqs.get(key)
        if eq is None:
            eq = ctx.eqs[key] = pde.DiffusionPDE(0.4, bc=bc)
        f = make_field(grid, 0)
        out = eq.solve(f, t_range=req["steps"] * 0.05, dt=0.05, solver=req["solver"], backend=req["backend"], tracker=None)
        return np.asarray(out.data)
    raise ValueError(kind)


def req_id(req):
    return hashlib.sha1(json.dumps(req, sort_keys=True).encode()).hexdigest()[:16]


def fresh_value(req, cache_dir, res):
    """Value of the request in its own fresh interpreter (memoised on disk per run)."""
    path = os.path.join(cache_dir, req_id(req) + ".npy")
    if not os.path.exists(path):
        env = shard_env({"mode": "jit"})
        proc = subprocess.run([PY, "-m", "vlib.checks.c04", json.dumps(req), path + f".{os.getpid()}.tmp.npy"], cwd=str(VERIF), env=env,
                              stdout=subprocess.PIPE, stderr=subprocess.STDOUT, text=True, timeout=900)
        tmp = path + f".{os.getpid()}.tmp.npy"
        if proc.returncode != 0 or not os.path.exists(tmp):
            return ("error", proc.stdout[-600:])
        os.replace(tmp, path)
        res.count("fresh_evaluations")
    try:
        return ("ok", np.load(path, allow_pickle=False))
    except Exception as exc:
        return ("error", str(exc))


# --------------------------------------------------------------------------------------
# cache monitor (sys.monitoring on the shared wrapper code object)


def canonical(obj, depth=0):
    """Canonical, value-based description of a cache argument."""
    import pde
    from pde.grids.base import GridBase
    from pde.grids.boundaries.axes import BoundariesBase
    from pde.grids.boundaries.local import BCBase

    if depth > 6:
        return "..."
    if isinstance(obj, (tuple, list)):
        return "[" + ",".join(canonical(o, depth + 1) for o in obj) + "]"
    if isinstance(obj, dict):
        return "{" + ",".join(f"{k}:{canonical(v, depth + 1)}" for k, v in sorted(obj.items(), key=lambda kv: str(kv[0]))) + "}"
    if isinstance(obj, GridBase):
        return f"{type(obj).__name__}(shape={obj.shape},bounds={obj.axes_bounds},periodic={obj.periodic})"
    if isinstance(obj, BCBase):
        extra = {k: (v.tolist() if isinstance(v, np.ndarray) else v) for k, v in vars(obj).items() if k in ("value", "_value", "const", "flip_sign", "_input", "value_cell", "rank", "axis", "upper", "normal")}
        return f"{type(obj).__name__}({canonical(obj.grid, depth + 1)},{canonical(extra, depth + 1)})"
    if isinstance(obj, BoundariesBase):
        try:
            return f"{type(obj).__name__}[" + ",".join(canonical((ax.low, ax.high) if hasattr(ax, "low") else (type(ax).__name__, getattr(ax, "flip_sign", None), canonical(ax.grid, depth + 1), ax.axis), depth + 1) for ax in obj) + "]"
        except Exception:
            return repr(obj)
    if isinstance(obj, np.ndarray):
        return "ndarray:" + hashlib.sha1(obj.tobytes()).hexdigest()[:10] + str(obj.dtype) + str(obj.shape)
    if isinstance(obj, pde.fields.base.FieldBase):
        return f"{type(obj).__name__}@{id(obj)}"
    if isinstance(obj, np.dtype) or isinstance(obj, type):
        return str(obj)
    if isinstance(obj, (int, float, complex, str, bool, type(None))):
        return repr(obj)
    if hasattr(obj, "rank_in") and hasattr(obj, "factory"):
        return f"OperatorInfo({getattr(obj, 'name', '')},{obj.rank_in},{obj.rank_out},{getattr(obj.factory, '__qualname__', '')})"
    return f"{type(obj).__name__}:{repr(obj)[:80]}"


class CacheMonitor:
    TOOL = 4

    def __init__(self):
        self.events = []  # (method, owner id, owner class, key, canonical)
        self.active = False

    def start(self):
        from pde.tools import cache as pc

        code = None
        for const in pc._class_cache._get_wrapped_function.__code__.co_consts:
            if hasattr(const, "co_name") and const.co_name == "wrapper":
                code = const
        if code is None or not hasattr(sys, "monitoring"):
            return False
        mon = sys.monitoring
        try:
            mon.use_tool_id(self.TOOL, "verif-cache-monitor")
        except ValueError:
            pass

        def on_return(code_, offset, retval):
            frame = sys._getframe(1)
            loc = frame.f_locals
            if "cache_key" in loc and "func_args" in loc:
                try:
                    desc = canonical(loc["func_args"])
                except Exception as exc:  # description must never disturb the program
                    desc = f"<undescribable {type(exc).__name__}>"
                owner = loc.get("obj")
                self.events.append((loc["self"].name, id(owner), type(owner).__name__, loc["cache_key"], desc))

        mon.register_callback(self.TOOL, mon.events.PY_RETURN, on_return)
        mon.set_local_events(self.TOOL, code, mon.events.PY_RETURN)
        self.code = code
        self.active = True
        return True

    def stop(self):
        if self.active:
            mon = sys.monitoring
            mon.set_local_events(self.TOOL, self.code, 0)
            mon.register_callback(self.TOOL, mon.events.PY_RETURN, None)
            mon.free_tool_id(self.TOOL)
            self.active = False

    def collisions(self):
        seen = {}
        out = []
        for method, owner, ocls, key, desc in self.events:
            k = (method, owner, key)
            if k in seen and seen[k] != desc and "<undescribable" not in desc + seen[k]:
                out.append((method, ocls, seen[k], desc))
            seen.setdefault(k, desc)
        return out


# --------------------------------------------------------------------------------------
# shards


def plan(tier: str, seed: int) -> list[dict]:
    quick = tier == "quick"
    cache_dir = tempfile.mkdtemp(prefix="verif_c04_")
    _STATE["cache_dir"] = cache_dir
    n_hist = 16 if quick else 160
    return [{"kind": "history", "mode": "jit", "pool": 70 if quick else 300, "length": [18, 30] if quick else [24, 36], "cache_dir": cache_dir,
             "threads": 2, "timeout": 3000 if quick else 9000} for _ in range(n_hist)]


_STATE: dict = {}


def coverage_extra(tier):
    d = _STATE.get("cache_dir")
    if d and os.path.isdir(d):
        shutil.rmtree(d, ignore_errors=True)
    return {}


def rebinding_probes(rng, res):
    """Oracle (3): interpolation follows the field's current memory and content."""
    import pde

    from .c02 import grid_info
    from .c16 import model_interpolate

    for gname in ("U6", "U64", "P6"):
        from .. import gen

        grid = gen.make_grid(GRIDS[gname])
        info = grid_info(GRIDS[gname])
        lo = np.array([b[0] for b in grid.axes_bounds])
        hi = np.array([b[1] for b in grid.axes_bounds])
        p = lo + (hi - lo) * rng.uniform(0.2, 0.8, size=grid.num_axes)
        f = pde.ScalarField(grid, rng.uniform(-1, 1, size=grid.shape))
        g = pde.ScalarField(grid, rng.uniform(-1, 1, size=grid.shape))
        steps = []

        def check(label):
            have = float(f.interpolate(p))
            want = float(model_interpolate(info, f.data, p)[0])
            res.count("rebinding_probes")
            steps.append(label)
            if abs(have - want) > 1e-12 * (abs(want) + 1):
                res.violation(
                    f"interpolation after '{label}' does not follow the field's current data", {"grid": GRIDS[gname], "steps": list(steps), "point": p.tolist()},
                    mechanism=None, have=have, want=want,
                )
                return False
            return True

        ok = check("construction")
        f.data += 1.0
        ok = ok and check("in-place edit")
        fc = pde.FieldCollection([f, g], copy_fields=False)
        ok = ok and check("FieldCollection(copy_fields=False) re-linked the field")
        fc.data[0] = rng.uniform(-1, 1, size=grid.shape)
        ok = ok and check("write through the collection")
        f.data = 0.25
        ok = ok and check("data assignment")
        fc2 = pde.FieldCollection.from_data([pde.ScalarField, pde.ScalarField], grid, rng.uniform(-1, 1, size=(2, *grid._shape_full)))
        f2 = fc2[0]
        have, want = float(f2.interpolate(p)), float(model_interpolate(info, f2.data, p)[0])
        res.count("rebinding_probes")
        if abs(have - want) > 1e-12 * (abs(want) + 1):
            res.violation("interpolation of a member created by from_data does not follow its data", {"grid": GRIDS[gname]})
        c = f.copy()
        c.data += 5
        if abs(float(c.interpolate(p)) - float(model_interpolate(info, c.data, p)[0])) > 1e-12 * 10:
            res.violation("interpolator of a copy reads the original's memory", {"grid": GRIDS[gname]})
        res.case(("rebinding", gname), nontrivial=True)


def run_shard(spec: dict) -> ShardResult:
    res = ShardResult(spec)
    rng = np.random.default_rng([spec["seed"], 4, spec["index"]])
    pool_rng = np.random.default_rng([spec["seed"], 4])  # the pool is shared by all histories of a run
    pool = build_pool(pool_rng, spec["pool"])
    length = int(rng.integers(spec["length"][0], spec["length"][1] + 1))
    # every history has a focus family (by shard index) from which its first ten requests are chained, so
    # that each family of near-collisions is exercised densely in some history of every run
    families = [
        lambda r: r["kind"] == "make_operator" and r.get("op") == "laplace",
        lambda r: r["kind"] in ("make_operator", "field_method", "no_bc") and r.get("op") != "laplace",
        lambda r: r.get("grid") in ("Cm1", "Cm2", "C2m1", "C2m2") or str(r.get("bc", "")).endswith(("m1", "m2")) or r.get("fill") in (-1.0, -2.0),
        lambda r: r.get("grid") in ("C6", "C6e", "F1", "F1e", "S6", "S6e") and r["kind"] == "rate",
        lambda r: r["kind"] == "rate_const",
        lambda r: r["kind"] == "rate",
        lambda r: r["kind"] == "interpolate",
        lambda r: r["kind"] in ("solve", "expression"),
    ]
    focus = [r for r in pool if families[spec["index"] % len(families)](r)] or pool
    res.seen("focus_families_seen", spec["index"] % len(families))
    history = [focus[int(rng.integers(len(focus)))]]
    while len(history) < min(10, length):
        near = [r for r in focus if differs_in_one(r, history[-1])]
        history.append(near[int(rng.integers(len(near)))] if near and rng.random() < 0.75 else focus[int(rng.integers(len(focus)))])
    # afterwards histories favour near-collisions: after a request, pick with 60% a request differing in one attribute
    while len(history) < length:
        last = history[-1]
        near = [r for r in pool if differs_in_one(r, last)]
        if near and rng.random() < 0.6:
            history.append(near[int(rng.integers(len(near)))])
        else:
            history.append(pool[int(rng.integers(len(pool)))])
    monitor = CacheMonitor()
    monitored = monitor.start()
    ctx = Context()
    executed = []
    try:
        for pos, req in enumerate(history):
            try:
                value = ("ok", execute(req, ctx))
            except Exception as exc:
                value = ("raised", f"{type(exc).__name__}: {str(exc)[:200]}")
            executed.append((req, value))
    finally:
        monitor.stop()
    # ---- oracle (1): fresh interpreter ------------------------------------------------------------
    for pos, (req, value) in enumerate(executed):
        kind, fresh = fresh_value(req, spec["cache_dir"], res)
        res.seen("request_kinds_seen", req["kind"])
        earlier = [r for r, _ in executed[:pos]]
        near = any(differs_in_one(req, r) for r in earlier)
        if near:
            res.count("near_collision_pairs_executed")
        case = {"request": req, "position": pos, "earlier_requests_differing_in_one_attribute": [r for r in earlier if differs_in_one(req, r)][:3]}
        if kind == "error":
            if value[0] == "raised":
                res.count("requests_raising_in_both")
            else:
                res.violation("request raises in a fresh interpreter but returned numbers inside the history", case, fresh_output=fresh)
            continue
        if value[0] == "raised":
            res.violation(f"request raised inside the history ({value[1]}) but returns numbers in a fresh interpreter", case)
            continue
        have = np.asarray(value[1])
        res.count("history_requests_compared")
        scale = float(np.abs(fresh).max()) + 1e-300 if fresh.size else 1.0
        if have.shape != fresh.shape or not np.allclose(have, fresh, rtol=0, atol=1e-12 * scale, equal_nan=True):
            diff = float(np.nanmax(np.abs(have - fresh))) if have.shape == fresh.shape else None
            res.violation(
                "result inside the history differs from the result of the same request in a fresh interpreter", case,
                max_abs_diff=diff, scale=scale, history=[f"{r['kind']}:{r.get('grid', '')}:{r.get('op', r.get('eq', r.get('text', '')))}:{r.get('bc', '')}" for r, _ in executed[:pos + 1]][-8:],
            )
        elif fresh.size:
            res.stat_max("max_rel_diff_history_vs_fresh", float(np.nanmax(np.abs(have - fresh))) / scale)
        res.case(req, nontrivial=near)
    # ---- oracle (2): key collisions ------------------------------------------------------------------
    if monitored:
        res.count("cache_events_observed", len(monitor.events))
        res.count("cache_keys_observed", len({(m, o, k) for m, o, _, k, _ in monitor.events}))
        for method, ocls, d1, d2 in monitor.collisions()[:5]:
            res.violation(f"cache key collision in {ocls}.{method}: two different argument sets share one key", {"first": d1[:600], "second": d2[:600]})
    else:
        res.notes.append("sys.monitoring unavailable: key-collision checker inactive")
    # ---- oracle (3) --------------------------------------------------------------------------------------
    rebinding_probes(rng, res)
    res.sample({"history": [f"{r['kind']}:{r.get('grid', '')}:{r.get('op', r.get('eq', r.get('text', '')))}:{r.get('bc', '')}" for r in history[:12]], "cache_events": len(monitor.events)})
    return res


if __name__ == "__main__":
    # fresh-interpreter evaluation of one request: python -m vlib.checks.c04 '<json>' <out.npy>
    import warnings

    warnings.filterwarnings("ignore")
    request = json.loads(sys.argv[1])
    out = execute(request, Context())
    np.save(sys.argv[2], np.asarray(out), allow_pickle=False)
