"""C16 — interpolation is exact where it must be; insertion conserves the amount.

Events: ``field.interpolate(points, bc=..., fill=...)``, ``interpolate_to_grid``, the compiled
interpolator on red-zoned data, ``field.insert`` (interpreted) and the backend's compiled
inserter.  Oracle: an independent multilinear model (periodic wrap, nearest value in the outer
half cell without boundary conditions, linear approach to the imposed boundary value with
them), DomainError/fill outside, the integral bookkeeping of insertions.
"""

from __future__ import annotations

import math

import numpy as np

from .. import gen
from ..models import bc as bcm
from ..runner import ShardResult
from .c02 import grid_info

PROPERTY = "C16"
LEVEL = "exploration"
RULE = (
    "A case is one (grid, field rank 0-2 / dtype, point kind) evaluation; point kinds: cell centre, "
    "between centres, face, outer half cell, periodic seam, edge/corner region, +-1e-9 cell around "
    "each of them, clearly outside (no fill / fill), batches; with boundary conditions: points on "
    "the line from a boundary cell centre to the face at 0, 1/4, 1/2, 1 of the half cell. Insertion: "
    "(grid, rank, interior point kind, amount scalar/tensor) through field.insert and the compiled "
    "inserter. Distinct = distinct (grid class, num_axes, periodic pattern, rank, point kind, "
    "route); non-trivial = random field content with pairwise distinct values and a point that is "
    "not a cell centre, or an insertion next to a boundary/seam or on a grid with non-uniform "
    "cell volumes."
)
ASSUMPTIONS = [
    "points within 1e-9 cells of the domain boundary of a non-periodic axis are excluded from the inside/outside verdict (membership is ill-conditioned there, as the statement says)",
    "round-off budget: 64 ulp of sum(|weight*value|) for interpolation, 256 ulp of sum(V*|data|)+|amount| for insertion",
    "with boundary conditions the approach to the boundary value is checked along one axis at a time (other coordinates at cell centres)",
]
REQUIRED = {
    "interpolations_checked": 5000,
    "centre_points": 250,
    "outside_points": 300,
    "bc_approach_points": 300,
    "bc_outside_points": 100,
    "bc_corner_points": 30,
    "insertions_checked": 600,
    "compiled_inserter_compared": 100,
    "redzone_interpolations": 200,
    "grid_classes_seen": 5,
}
EPS = 2.220446049250313e-16


def plan(tier: str, seed: int) -> list[dict]:
    quick = tier == "quick"
    shards = []
    for _ in range(10 if quick else 40):
        shards.append({"kind": "interp", "mode": "jit", "grids": 7 if quick else 20, "timeout": 1500 if quick else 4000})
    for _ in range(4 if quick else 16):
        shards.append({"kind": "interp", "mode": "nojit", "grids": 8 if quick else 25, "timeout": 1500 if quick else 4000})
    shards.append({"kind": "interp", "mode": "boundscheck", "grids": 4 if quick else 12, "timeout": 1500 if quick else 4000})
    return shards


# --------------------------------------------------------------------------------------
# model


def axis_support(s, N, periodic, ghost):
    """(i, j, w_i, w_j) in *valid* (ghost=False) or padded (ghost=True) indices, or None if
    outside; `s` is the cell-centre index coordinate (p - lo)/dx - 1/2."""
    if periodic:
        f = math.floor(s)
        d = s - f
        i = int(f) % N
        j = (i + 1) % N
        return (i + ghost, j + ghost, 1 - d, d)
    if s < -0.5 or s > N - 0.5:
        return None
    if ghost:
        f = math.floor(s)
        d = s - f
        return (int(f) + 1, int(f) + 2, 1 - d, d)
    if s <= 0:
        return (0, 0, 1.0, 0.0)
    if s >= N - 1:
        return (N - 1, N - 1, 1.0, 0.0)
    f = math.floor(s)
    d = s - f
    return (int(f), int(f) + 1, 1 - d, d)


def model_interpolate(info, data, point, ghost=False):
    """Multilinear interpolant; returns (value, abs-weighted magnitude) or None if outside."""
    shape, bounds, periodic = info["shape"], info["bounds"], info["periodic"]
    supports = []
    for ax, (p, (lo, hi), N) in enumerate(zip(point, bounds, shape)):
        dx = (hi - lo) / N
        sup = axis_support((p - lo) / dx - 0.5, N, periodic[ax], ghost)
        if sup is None:
            return None
        supports.append(sup)
    nd = len(shape)
    total = 0.0
    mag = 0.0
    for corner in np.ndindex(*(2,) * nd):
        w = 1.0
        idx = []
        for ax, c in enumerate(corner):
            i, j, wi, wj = supports[ax]
            idx.append(j if c else i)
            w *= wj if c else wi
        if w == 0.0:
            continue
        v = data[(Ellipsis, *idx)]
        total = total + w * v
        mag = mag + abs(w) * np.abs(v)
    return total, mag


def boundary_margin(info, point):
    """Distance (in cells) of the point to the nearest non-periodic domain face."""
    m = np.inf
    for p, (lo, hi), N, per in zip(point, info["bounds"], info["shape"], info["periodic"]):
        if per:
            continue
        dx = (hi - lo) / N
        m = min(m, abs(p - lo) / dx, abs(p - hi) / dx)
    return m


def gen_points(rng, info):
    """Points in grid coordinates with a kind label."""
    shape, bounds, periodic = info["shape"], info["bounds"], info["periodic"]
    dxs = [(hi - lo) / N for (lo, hi), N in zip(bounds, shape)]
    pts = []
    kinds = ["centre", "between", "between", "face", "halfcell", "seam", "corner", "outside", "far"]
    for _ in range(40):
        kind = str(rng.choice(kinds))
        p = []
        for ax, ((lo, hi), N, dx) in enumerate(zip(bounds, shape, dxs)):
            if kind == "centre":
                c = int(rng.integers(N)) + 0.5
            elif kind == "between":
                c = rng.uniform(0.5, N - 0.5) if N > 1 else 0.5
            elif kind == "face":
                c = float(rng.integers(N + 1)) if rng.random() < 0.5 else rng.uniform(0, N)
            elif kind == "halfcell":
                c = rng.uniform(0, 0.5) if rng.random() < 0.5 else N - rng.uniform(0, 0.5)
            elif kind == "seam":
                c = float(rng.choice([0.0, N, rng.uniform(-0.5, 0.5), N + rng.uniform(-0.5, 0.5), -N * 2 + 0.3, 3 * N + 0.7])) if periodic[ax] else rng.uniform(0.2, N - 0.2)
            elif kind == "corner":
                c = float(rng.choice([rng.uniform(0, 0.5), N - rng.uniform(0, 0.5)]))
            elif kind == "outside":
                c = float(rng.choice([-rng.uniform(1e-6, 1.5), N + rng.uniform(1e-6, 1.5)])) if rng.random() < 0.6 else rng.uniform(0, N)
            else:
                c = float(rng.choice([-1, 1])) * rng.uniform(2, 50) * N
            if rng.random() < 0.15:
                c += float(rng.choice([-1e-9, 1e-9]))
            p.append(lo + c * dx)
        pts.append((kind, np.array(p, dtype=float)))
    return pts


def make_field(rng, grid, rank, dtype):
    import pde

    cls = [pde.ScalarField, pde.VectorField, pde.Tensor2Field][rank]
    f = cls(grid, dtype=dtype)
    vals = rng.uniform(-1, 1, size=f._data_full.shape)
    if dtype == "complex128":
        vals = vals + 1j * rng.uniform(-1, 1, size=vals.shape)
    f._data_full[...] = vals
    return f


def ghost_from_condition(cond, c1, c2, dx, v, beta):
    kind = cond["kind"]
    if kind == "value":
        return 2 * v - c1
    if kind == "derivative":
        return c1 + dx * v
    if kind == "mixed":
        if np.isinf(v):
            return -c1
        return (2 * dx * beta + (2 - v * dx) * c1) / (2 + v * dx)
    return 2 * c1 - c2 + v * dx**2


def run_shard(spec: dict) -> ShardResult:
    import pde
    from pde.backends import get_backend
    from pde.grids.base import DomainError

    from ..monitors import redzone

    res = ShardResult(spec)
    rng = np.random.default_rng([spec["seed"], 16, spec["index"]])
    nb = get_backend("numba")
    for gi in range(spec["grids"]):
        gspec = gen.random_grid_spec(rng, sizes=(1, 2, 3, 5, 8), max_cells=150, tame=rng.random() < 0.6)
        grid = gen.make_grid(gspec)
        info = grid_info(gspec)
        cls = gspec["cls"]
        res.seen("grid_classes_seen", cls)
        nd = len(info["shape"])
        rank = int(rng.choice([0, 0, 1, 2]))
        dtype = str(rng.choice(["float64", "float64", "complex128"]))
        f = make_field(rng, grid, rank, dtype)
        gkey = (cls, nd, tuple(info["periodic"]), rank)
        case0 = {"grid": gspec, "rank": rank, "dtype": dtype, "mode": spec["mode"]}
        dxs = [(hi - lo) / N for (lo, hi), N in zip(info["bounds"], info["shape"])]

        # ---- (1)-(4) interpolation without boundary conditions -------------------------
        fillv = 0.625
        for kind, p in gen_points(rng, info):
            case = {**case0, "point_kind": kind, "point": p.tolist()}
            margin = boundary_margin(info, p)
            want = model_interpolate(info, f.data, p)
            if margin < 1e-9:
                res.count("near_boundary_points_not_judged")
                continue
            for use_fill in (False, True):
                try:
                    have = f.interpolate(p, fill=fillv if use_fill else None)
                    outcome = "value"
                except DomainError:
                    outcome = "domain_error"
                except Exception as exc:
                    res.violation(f"interpolate raised undocumented {type(exc).__name__}: {str(exc)[:200]}", case)
                    break
                res.count("interpolations_checked")
                if want is None:
                    res.count("outside_points")
                    if use_fill:
                        if outcome != "value" or not np.all(np.asarray(have) == np.asarray(fillv, dtype=f.data.dtype)):
                            res.violation("point outside the domain did not return the fill value", case, have=have if outcome == "value" else outcome)
                    elif outcome != "domain_error":
                        res.violation("point outside the domain returned a value instead of raising DomainError", case, have=have)
                    continue
                if outcome != "value":
                    res.violation("point inside the domain raised DomainError", case)
                    break
                val, mag = want
                # weights inherit the conditioning of (p - lo)/dx: ulp(|p|+|lo|)/dx per axis
                cond = sum((abs(pi) + abs(lo)) / d for pi, (lo, _), d in zip(p, info["bounds"], dxs))
                tol = 64 * EPS * mag + 16 * EPS * cond * float(np.abs(f.data).max()) * 2 + 1e-300
                if np.shape(have) != np.shape(val) or (np.abs(np.asarray(have) - val) > tol).any():
                    res.violation("interpolated value differs from the multilinear interpolant", case, have=have, want=val)
                    break
                lo_, hi_ = (f.data.real.min(), f.data.real.max())
                if dtype == "float64" and (np.min(have) < lo_ - 64 * EPS or np.max(have) > hi_ + 64 * EPS):
                    res.violation("interpolated value lies outside the range of the data", case, have=have)
            if kind == "centre":
                res.count("centre_points")
            res.case((gkey, kind, "interpolate"), nontrivial=kind != "centre")
        # batch of inside points equals per-point results
        inside = [p for k, p in gen_points(rng, info) if model_interpolate(info, f.data, p) is not None and boundary_margin(info, p) > 1e-9][:6]
        if len(inside) >= 2:
            batch = np.array(inside)
            got = f.interpolate(batch)
            single = np.moveaxis(np.array([f.interpolate(p) for p in inside]), 0, -1)  # tensor axes first, then points
            if got.shape != single.shape or not np.array_equal(np.asarray(got), single):
                res.violation("batched interpolation differs from per-point interpolation", case0)
        # compiled interpolator on red-zoned data
        try:
            interp = nb.make_interpolator(f, fill=None, with_ghost_cells=False)
            rz = redzone.RedZone(f.data.shape, dtype=f.data.dtype, poison=np.nan)
            rz.view[...] = f.data
            rz.snapshot()
            for p in inside[:4]:
                v = interp(p, rz.view)
                res.count("redzone_interpolations")
                w = model_interpolate(info, f.data, p)[0]
                cond = sum((abs(pi) + abs(lo)) / d for pi, (lo, _), d in zip(p, info["bounds"], dxs))
                if np.isnan(np.asarray(v)).any() or (np.abs(np.asarray(v) - w) > 64 * EPS * (np.abs(w) + 1) * (1 + cond)).any():
                    res.violation("compiled interpolator on external data: wrong value or NaN poison read", {**case0, "point": p.tolist()})
            if not rz.unchanged():
                res.violation("compiled interpolator modified the data array or memory next to it", case0)
        except Exception as exc:
            res.violation(f"compiled interpolator raised {type(exc).__name__}: {str(exc)[:200]}", case0)

        # ---- (5) approach to the imposed boundary value ---------------------------------
        if rank == 0:
            structure = bcm.gen_structure(rng, info, 0)
            for ax in structure["axes"]:
                for c in ax.get("sides", []):
                    if c["vform"] in ("expr", "texpr") or (c["kind"] == "mixed" and np.any(np.isinf(c["v"]))):
                        c.update({"kind": "value", "alias": "value", "vform": "const", "v": 0.75, "normal": False})
                        for key in ("v_text", "v_fn", "b_text", "b_fn", "value_cell", "beta", "bform"):
                            c.pop(key, None)
            spec_data, fmt = bcm.render_spec(rng, structure, info["axes"], dict(grid.boundary_names), accept_lists=False)
            for axis, ax in enumerate(structure["axes"]):
                if "sides" not in ax:
                    continue
                N = info["shape"][axis]
                for upper in (False, True):
                    cond_ = ax["sides"][int(upper)]
                    idx = [int(rng.integers(n)) for n in info["shape"]]
                    idx[axis] = N - 1 if upper else 0
                    c1 = f.data[tuple(idx)]
                    idx2 = list(idx)
                    idx2[axis] = (N - 2 if upper else 1) if N >= 2 else idx[axis]
                    c2 = f.data[tuple(idx2)]
                    fshape = bcm.face_shape(info["shape"], axis)
                    fidx = tuple(i for a, i in enumerate(idx) if a != axis)
                    v = bcm._param(cond_["v"], (), fshape)[fidx] if fshape else float(np.asarray(cond_["v"]))
                    beta = (bcm._param(cond_["beta"], (), fshape)[fidx] if fshape else float(np.asarray(cond_["beta"]))) if cond_["kind"] == "mixed" else 0.0
                    dx = dxs[axis]
                    g = ghost_from_condition(cond_, c1, c2, dx, v, beta)
                    centre = np.array([lo + (i + 0.5) * d for (lo, _), i, d in zip(info["bounds"], idx, dxs)])
                    for lam in (0.0, 0.25, 0.5, 1.0 - 1e-7):
                        p = centre.copy()
                        p[axis] += (1 if upper else -1) * lam * dx / 2
                        want = c1 + (g - c1) * (lam / 2)
                        case = {**case0, "bc": spec_data, "axis": axis, "upper": upper, "condition": (cond_["kind"], cond_["vform"]), "fraction_of_half_cell": lam, "point": p.tolist()}
                        try:
                            have = f.interpolate(p, bc=spec_data)
                        except Exception as exc:
                            res.violation(f"interpolate(bc=...) raised {type(exc).__name__}: {str(exc)[:200]}", case)
                            break
                        res.count("bc_approach_points")
                        # conditioning of (p - lo)/dx along EVERY axis: the other coordinates sit at cell centres of
                        # axes that may have tiny extents at large offsets, where the weights carry eps*|lo|/dx
                        cond = sum((abs(p[a_]) + abs(info["bounds"][a_][0])) / dxs[a_] for a_ in range(len(dxs)))
                        tol = 256 * EPS * (abs(c1) + abs(g) + abs(c2) + abs(v) + abs(beta) * dx) * (1 + cond) + 1e-300
                        if abs(have - want) > tol:
                            res.violation("interpolation with boundary conditions does not approach the imposed boundary value linearly", case, have=have, want=want, cell=c1, ghost=g)
                            break
                        if cond_["kind"] == "value" and lam > 0.9 and abs(have - v) > tol + 1e-6 * abs(v - c1):
                            res.violation("value at the wall differs from the imposed Dirichlet value", case, have=have, want=v)
                    # beyond the wall (clearly outside, also by less than half a cell): error or fill value
                    for beyond in (float(rng.uniform(0.02, 0.48)), float(rng.uniform(0.52, 3.0))):
                        p = centre.copy()
                        p[axis] += (1 if upper else -1) * (0.5 + beyond) * dx
                        case = {**case0, "bc": spec_data, "axis": axis, "upper": upper, "cells_beyond_the_wall": beyond, "point": p.tolist()}
                        res.count("bc_outside_points")
                        try:
                            have = f.interpolate(p, bc=spec_data)
                            res.violation("interpolate(bc=...) returned a value for a point outside the domain instead of raising", case, have=have)
                        except Exception as exc:
                            if type(exc).__name__ not in ("DomainError", "ValueError"):
                                res.violation(f"interpolate(bc=...) outside the domain raised {type(exc).__name__}: {str(exc)[:200]}", case)
                        try:
                            have = f.interpolate(p, bc=spec_data, fill=-77.5)
                            if not np.all(np.asarray(have) == -77.5):
                                res.violation("interpolate(bc=..., fill=...) did not return the fill value for a point outside the domain", case, have=have)
                        except Exception as exc:
                            res.violation(f"interpolate(bc=..., fill=...) raised {type(exc).__name__}: {str(exc)[:200]}", case)
                    res.case((gkey, cond_["kind"], upper, "bc_approach"))

            # ---- (5b) corner strips of grids with two non-periodic axes --------------------------
            # support = corner cell, the two adjacent wall ghost cells and the corner ghost cell, which is
            # documented as interpolated from (= the mean of) those two wall ghost cells
            if len(info["shape"]) == 2 and all("sides" in ax for ax in structure["axes"]):
                for ux in (False, True):
                    for uy in (False, True):
                        idx = [info["shape"][0] - 1 if ux else 0, info["shape"][1] - 1 if uy else 0]
                        c1 = f.data[tuple(idx)]
                        ghosts = []
                        for axis, upper in ((0, ux), (1, uy)):
                            N = info["shape"][axis]
                            cond_ = structure["axes"][axis]["sides"][int(upper)]
                            idx2 = list(idx)
                            idx2[axis] = (N - 2 if upper else 1) if N >= 2 else idx[axis]
                            c2 = f.data[tuple(idx2)]
                            fshape = bcm.face_shape(info["shape"], axis)
                            fidx = tuple(i for a, i in enumerate(idx) if a != axis)
                            v = bcm._param(cond_["v"], (), fshape)[fidx] if fshape else float(np.asarray(cond_["v"]))
                            beta = (bcm._param(cond_["beta"], (), fshape)[fidx] if fshape else float(np.asarray(cond_["beta"]))) if cond_["kind"] == "mixed" else 0.0
                            ghosts.append(ghost_from_condition(cond_, c1, c2, dxs[axis], v, beta))
                        gx, gy = ghosts
                        corner = (gx + gy) / 2
                        centre = np.array([lo + (i + 0.5) * d for (lo, _), i, d in zip(info["bounds"], idx, dxs)])
                        for _ in range(4):
                            lx, ly = (float(t) for t in rng.uniform(0.05, 0.95, size=2))
                            p = centre + np.array([(1 if ux else -1) * lx * dxs[0] / 2, (1 if uy else -1) * ly * dxs[1] / 2])
                            wx, wy = lx / 2, ly / 2
                            want = (1 - wx) * (1 - wy) * c1 + wx * (1 - wy) * gx + (1 - wx) * wy * gy + wx * wy * corner
                            case = {**case0, "bc": spec_data, "corner": ("x+" if ux else "x-", "y+" if uy else "y-"), "point": p.tolist()}
                            try:
                                have = f.interpolate(p, bc=spec_data)
                            except Exception as exc:
                                res.violation(f"interpolate(bc=...) in a corner strip raised {type(exc).__name__}: {str(exc)[:200]}", case)
                                break
                            res.count("bc_corner_points")
                            condn = sum((abs(p[a]) + abs(info["bounds"][a][0])) / dxs[a] for a in (0, 1))
                            tol = 256 * EPS * (abs(c1) + abs(gx) + abs(gy)) * (1 + condn) + 1e-300
                            if abs(have - want) > tol:
                                res.violation("interpolation with boundary conditions in a corner strip is not the bilinear interpolant of cell, wall ghost cells and their mean",
                                              case, have=have, want=want, cell=c1, ghost_x=gx, ghost_y=gy)
                                break

        # ---- interpolate_to_grid ----------------------------------------------------------
        if cls in ("UnitGrid", "CartesianGrid") and rank == 0 and dtype == "float64":
            sub_bounds = []
            for (lo, hi), N in zip(info["bounds"], info["shape"]):
                a, b = sorted(rng.uniform(lo + 0.01 * (hi - lo), hi - 0.01 * (hi - lo), size=2))
                sub_bounds.append([float(a), float(max(b, a + 1e-3 * (hi - lo)))])
            tgt = pde.CartesianGrid(sub_bounds, [int(rng.integers(1, 4)) for _ in info["shape"]])
            try:
                g2 = f.interpolate_to_grid(tgt)
                pts = tgt.cell_coords.reshape(-1, nd)
                want = np.array([model_interpolate(info, f.data, p)[0] for p in pts]).reshape(tgt.shape)
                cond_g = sum((max(abs(lo_), abs(hi_)) * 2) / d_ for (lo_, hi_), d_ in zip(info["bounds"], dxs))
                if np.abs(g2.data - want).max() > 256 * EPS * (np.abs(f.data).max() + 1) * (1 + cond_g):
                    res.violation("interpolate_to_grid differs from the interpolant at the target cell centres", {**case0, "target_bounds": sub_bounds})
                res.count("interpolations_checked", int(pts.shape[0]))
            except Exception as exc:
                res.violation(f"interpolate_to_grid raised {type(exc).__name__}: {str(exc)[:200]}", case0)

        # ---- (6) insertion ------------------------------------------------------------------
        V = np.broadcast_to(np.asarray(grid.cell_volumes, dtype=float), info["shape"])
        try:
            inserter = nb.make_inserter(grid)
        except Exception as exc:
            inserter = None
            res.violation(f"make_inserter raised {type(exc).__name__}: {str(exc)[:200]}", case0)
        for kind, p in gen_points(rng, info)[:16]:
            if model_interpolate(info, f.data, p) is None or boundary_margin(info, p) < 1e-9:
                continue
            amount = float(np.round(rng.uniform(-3, 3), 3)) if rng.random() < 0.6 or rank == 0 else np.round(rng.uniform(-3, 3, size=(grid.dim,) * rank), 3)
            g1 = f.copy()
            before = np.asarray(g1.integral)
            absint = float((V * np.abs(g1.data)).sum())
            case = {**case0, "point_kind": kind, "point": p.tolist(), "amount": amount}
            try:
                g1.insert(p, amount)
            except Exception as exc:
                res.violation(f"insert raised {type(exc).__name__}: {str(exc)[:200]}", case)
                continue
            after = np.asarray(g1.integral)
            tol = 256 * EPS * (absint + float(np.abs(amount).max())) * 4
            res.count("insertions_checked")
            if (np.abs((after - before) - amount) > tol).any():
                res.violation("insertion did not raise the integral by the inserted amount", case, change=after - before)
                continue
            if not np.array_equal(g1._data_full[(Ellipsis, *(slice(1, -1),) * nd)], g1.data):
                res.violation("insert desynchronised data and padded array", case)
            if inserter is not None:
                g2 = f.copy()
                rz = redzone.RedZone(g2.data.shape, dtype=g2.data.dtype, poison=np.nan)
                rz.view[...] = g2.data
                rz.snapshot()
                try:
                    inserter(rz.view, p, np.asarray(amount, dtype=g2.data.dtype) if np.ndim(amount) else g2.data.dtype.type(amount))
                    res.count("compiled_inserter_compared")
                    if not rz.margins_intact():
                        res.violation("compiled inserter wrote outside the data array", case)
                    cond = sum((abs(pi) + abs(lo)) / d for pi, (lo, _), d in zip(p, info["bounds"], dxs))
                    if (np.abs(rz.view - g1.data) > 256 * EPS * (np.abs(g1.data) + np.abs(amount).max() / V.min()) * (1 + cond)).any():
                        res.violation("compiled inserter disagrees with field.insert", case)
                except Exception as exc:
                    res.violation(f"compiled inserter raised {type(exc).__name__}: {str(exc)[:200]}", case)
            uniform = bool(np.ptp(V) < 1e-12 * V.max())
            res.case((gkey, kind, "insert", np.ndim(amount) > 0), nontrivial=(kind != "centre") or not uniform)
        if gi < 1:
            res.sample({**case0, "example_points": [(k, p.tolist()) for k, p in gen_points(rng, info)[:3]]})
    return res
