"""C12 — grid geometry and coordinate transformations are self-consistent.

Events: values returned by the geometry API of generated grids (axes_coords,
discretization, cell_volumes, volume, integrate, ScalarField.project, transform,
contains_point, get_random_point, normalize_point, distance, difference_vector) for
generated points.  Oracle: exact formulas (rational arithmetic times pi) and the algebraic
laws listed in the statement, with tolerances derived from the magnitudes involved.
"""

from __future__ import annotations

import itertools
import math
from fractions import Fraction as Fr

import numpy as np

from .. import gen
from ..runner import ShardResult

PROPERTY = "C12"
LEVEL = "exploration"
RULE = (
    "A case is one (grid, clause) evaluation: clauses = centres, volumes, integrate(1, axes), "
    "projection, transform round trips (cell/grid/cartesian in all six directions, single "
    "points and batches of shape (n,), (n,m)), containment of generated points (all three "
    "coordinate kinds, boundary_distance, avoid_center), normalisation (±reflect; points "
    "inside, on faces, ±1 ulp, far outside), distance laws (symmetry, period-shift "
    "invariance, half-period bound, Euclidean value). Distinct = distinct (grid class, hole, "
    "periodic pattern, cells-per-axis pattern, bounds kind, clause, point kind); non-trivial "
    "= the grid has a hole, a periodic axis, a 1-cell axis or bounds not starting at 0, or "
    "the point lies on/outside a face."
)
ASSUMPTIONS = [
    "tolerances: 64 ulp of the largest magnitude entering a formula (bounds, point, number of periods moved)",
    "iter_mirror_points is outside the statement and not judged",
    "normalize_point mutating a float64 input array in place is recorded as an observation only",
]
REQUIRED = {
    "volume_formulas_checked": 300,
    "transform_roundtrips": 2000,
    "generated_points_contained": 1000,
    "normalisations_checked": 2000,
    "distance_laws_checked": 2000,
    "projections_checked": 100,
    "periodic_cylinders": 10,
    "batched_calls": 300,
    "input_format_calls": 2000,
}
EPS = 2.220446049250313e-16


def plan(tier: str, seed: int) -> list[dict]:
    n = 16 if tier == "quick" else 64
    cases = 500 if tier == "quick" else 4000
    return [{"kind": "geometry", "mode": "nojit", "cases": cases, "timeout": 900 if tier == "quick" else 3000} for _ in range(n)]


def exact_axis(spec, axis):
    """(x_min, x_max, N) of a grid axis as Fractions of the *given* float parameters."""
    a, b = gen.grid_bounds(spec)[axis]
    return Fr(a), Fr(b), gen.grid_shape(spec)[axis]


def exact_volumes(spec) -> np.ndarray:
    """Cell volumes by exact rational arithmetic (times pi where needed)."""
    cls = spec["cls"]
    shape = gen.grid_shape(spec)
    per_axis = []
    for ax in range(len(shape)):
        lo, hi, n = exact_axis(spec, ax)
        dx = (hi - lo) / n
        edges = [lo + k * dx for k in range(n + 1)]
        radial = ax == 0 and cls in ("PolarSymGrid", "SphericalSymGrid", "CylindricalSymGrid")
        if radial and cls == "SphericalSymGrid":
            per_axis.append([float(Fr(4, 3) * (edges[k + 1] ** 3 - edges[k] ** 3)) * math.pi for k in range(n)])
        elif radial:
            per_axis.append([float(edges[k + 1] ** 2 - edges[k] ** 2) * math.pi for k in range(n)])
        else:
            per_axis.append([float(dx)] * n)
    vol = np.array(per_axis[0])
    for v in per_axis[1:]:
        vol = np.multiply.outer(vol, np.array(v))
    return vol


def axis_measure(spec, axis) -> float:
    cls = spec["cls"]
    lo, hi, _ = exact_axis(spec, axis)
    if axis == 0 and cls == "SphericalSymGrid":
        return float(Fr(4, 3) * (hi**3 - lo**3)) * math.pi
    if axis == 0 and cls in ("PolarSymGrid", "CylindricalSymGrid"):
        return float(hi**2 - lo**2) * math.pi
    return float(hi - lo)


def point_kinds(rng, spec, n):
    """Points in *cell* coordinates with a label per point."""
    shape = gen.grid_shape(spec)
    pts, kinds = [], []
    for _ in range(n):
        kind = str(rng.choice(["inside", "centre", "face", "ulp_in", "ulp_out", "outside", "far"]))
        p = []
        for N in shape:
            if kind == "inside":
                c = rng.uniform(0.02, N - 0.02)
            elif kind == "centre":
                c = int(rng.integers(N)) + 0.5
            elif kind == "face":
                c = float(rng.choice([0.0, float(N), float(rng.integers(N + 1))]))
            elif kind == "ulp_in":
                c = float(rng.choice([math.nextafter(0.0, 1.0) * 2**52 * 4, math.nextafter(float(N), 0.0)]))
            elif kind == "ulp_out":
                c = float(rng.choice([-1e-13, math.nextafter(float(N), np.inf)]))
            elif kind == "outside":
                c = float(rng.choice([-1, 1])) * rng.uniform(0.05, 2.5) + (N if rng.random() < 0.5 else 0)
                if 0 <= c <= N:
                    c = N + 0.7
            else:
                c = float(rng.choice([-1, 1])) * rng.uniform(3, 400) * N
            p.append(c)
        pts.append(p)
        kinds.append(kind)
    return np.array(pts, dtype=float), kinds


def run_shard(spec: dict) -> ShardResult:
    import pde

    res = ShardResult(spec)
    rng = np.random.default_rng([spec["seed"], 12, spec["index"]])
    for case_no in range(spec["cases"]):
        gspec = gen.random_grid_spec(rng, sizes=(1, 2, 3, 5, 8))
        grid = gen.make_grid(gspec)
        cls = gspec["cls"]
        bounds = gen.grid_bounds(gspec)
        shape = gen.grid_shape(gspec)
        periodic = gen.grid_periodic(gspec)
        hole = cls not in ("UnitGrid", "CartesianGrid") and bounds[0][0] > 0
        if cls == "CylindricalSymGrid" and periodic[1]:
            res.count("periodic_cylinders")
        bkind = "zero" if all(a == 0 for a, _ in bounds) else ("neg" if any(a < 0 for a, _ in bounds) else "pos")
        gkey = (cls, hole, tuple(periodic), tuple(min(s, 2) for s in shape), bkind)
        nontrivial_grid = hole or any(periodic) or 1 in shape or bkind != "zero"
        scale = max(1.0, max(abs(x) for ab in bounds for x in ab))
        tol_len = 64 * EPS * scale

        def bad(what, **detail):
            res.violation(what, {"grid": gspec}, **detail)

        # ---- (1) centres and spacing -----------------------------------------------
        for ax in range(len(shape)):
            lo, hi, n = exact_axis(gspec, ax)
            dx = (hi - lo) / n
            want = np.array([float(lo + (k + Fr(1, 2)) * dx) for k in range(n)])
            have = np.asarray(grid.axes_coords[ax], dtype=float)
            if have.shape != want.shape or np.abs(have - want).max() > tol_len:
                bad(f"cell centres of axis {ax} are not x_min+(i+1/2)dx", have=have, want=want)
            if abs(float(grid.discretization[ax]) - float(dx)) > 16 * EPS * float(dx) + 16 * EPS * scale / n:
                bad(f"discretization of axis {ax} is not (x_max-x_min)/N", have=float(grid.discretization[ax]), want=float(dx))
        res.case(("centres", gkey), nontrivial=nontrivial_grid)

        # ---- (2) volumes ------------------------------------------------------------
        want_v = exact_volumes(gspec)
        have_v = np.asarray(grid.cell_volumes, dtype=float)
        have_v = np.broadcast_to(have_v, shape) if have_v.shape != tuple(shape) else have_v
        # cancellation in r+^p - r-^p is bounded by ulp(r^p)/shell
        rel = 64 * EPS * (1 + max((scale / float((Fr(b) - Fr(a)) / n)) for (a, b), n in zip(bounds, shape)))
        if np.abs(have_v - want_v).max() > rel * np.abs(want_v).max():
            bad("cell volumes differ from the exact cell volumes", have=have_v, want=want_v)
        total = float(np.prod([axis_measure(gspec, ax) for ax in range(len(shape))]))
        if abs(float(grid.volume) - total) > rel * abs(total) * 4:
            bad("grid.volume is not the exact measure of the domain", have=float(grid.volume), want=total)
        if abs(float(have_v.sum()) - float(grid.volume)) > rel * abs(total) * 4 * have_v.size:
            bad("cell volumes do not sum to grid.volume", sum=float(have_v.sum()), volume=float(grid.volume))
        res.count("volume_formulas_checked")
        res.case(("volumes", gkey), nontrivial=nontrivial_grid)

        # ---- (3) integrate(1, axes) -------------------------------------------------
        axes_all = range(len(shape))
        for r in range(1, len(shape) + 1):
            for axes in itertools.combinations(axes_all, r):
                want = float(np.prod([axis_measure(gspec, ax) for ax in axes]))
                try:
                    have = grid.integrate(1, axes=axes if r < len(shape) or rng.random() < 0.5 else None)
                except NotImplementedError:
                    continue
                have = np.asarray(have, dtype=float)
                remaining = tuple(shape[ax] for ax in axes_all if ax not in axes)
                if have.shape not in (remaining, ()) or np.abs(have - want).max() > rel * abs(want) * 8 * max(shape):
                    bad(f"integrate(1, axes={axes}) is not the measure of these axes", have=have, want=want)
                res.case(("integrate1", gkey, axes), nontrivial=nontrivial_grid)

        # ---- (4) projection preserves the integral ---------------------------------
        if len(shape) >= 2:
            f = pde.ScalarField(grid, rng.uniform(-1, 1, size=shape))
            budget = rel * 16 * float((np.abs(f.data) * have_v).sum()) * max(shape)
            for r in range(1, len(shape)):
                for axes in itertools.combinations(axes_all, r):
                    names = [grid.axes[a] for a in axes]
                    try:
                        proj = f.project(names)
                    except (NotImplementedError, ValueError):
                        res.count("projection_unsupported")
                        continue
                    if abs(float(proj.integral) - float(f.integral)) > budget:
                        bad(f"projection along {names} changes the integral", before=float(f.integral), after=float(proj.integral))
                    if tuple(proj.grid.shape) != tuple(shape[a] for a in axes_all if a not in axes):
                        bad(f"projection along {names} has the wrong shape")
                    res.count("projections_checked")
                    res.case(("project", gkey, axes), nontrivial=True)

        # ---- (5) transforms ---------------------------------------------------------
        cells, kinds = point_kinds(rng, gspec, 12)
        lo = np.array([b[0] for b in bounds])
        dxs = np.array([(b[1] - b[0]) / n for b, n in zip(bounds, shape)])
        for c, kind in zip(cells, kinds):
            g_want = lo + c * dxs
            # radial coordinates are non-negative: mirror expectation for negative radii
            radial_negative = cls not in ("UnitGrid", "CartesianGrid") and g_want[0] < 0
            tol_pt = 64 * EPS * (scale + np.abs(g_want).max())
            gpt = grid.transform(c, "cell", "grid")
            if np.abs(gpt - g_want).max() > tol_pt:
                bad("cell->grid is not x_min + c*dx", point=c, have=gpt, want=g_want)
            c_back = grid.transform(gpt, "grid", "cell")
            if np.abs(c_back - c).max() > tol_pt / dxs.min():
                bad("grid->cell does not invert cell->grid", point=c, back=c_back)
            if not radial_negative:
                cart = grid.transform(gpt, "grid", "cartesian")
                if cart.shape[-1] != grid.dim:
                    bad("grid->cartesian returns the wrong number of components", have=cart)
                g_back = grid.transform(cart, "cartesian", "grid")
                if np.abs(g_back - gpt).max() > tol_pt:
                    bad("cartesian->grid does not invert grid->cartesian", point=gpt, cart=cart, back=g_back)
                c_via = grid.transform(grid.transform(c, "cell", "cartesian"), "cartesian", "cell")
                if np.abs(c_via - c).max() > tol_pt / dxs.min():
                    bad("cell->cartesian->cell is not the identity", point=c, back=c_via)
                # distance from the symmetry centre/axis is the radial coordinate
                if cls in ("PolarSymGrid", "SphericalSymGrid") and abs(np.linalg.norm(cart) - gpt[0]) > tol_pt:
                    bad("|cartesian image| differs from the radial coordinate", point=gpt, cart=cart)
                if cls == "CylindricalSymGrid" and (abs(np.hypot(cart[0], cart[1]) - gpt[0]) > tol_pt or abs(cart[2] - gpt[1]) > tol_pt):
                    bad("cartesian image of a cylindrical point has wrong radius or height", point=gpt, cart=cart)
                if cls in ("UnitGrid", "CartesianGrid") and np.abs(cart - gpt).max() > 0:
                    bad("Cartesian grids: grid and cartesian coordinates differ", point=gpt, cart=cart)
            for same in ("cell", "grid"):
                if not np.array_equal(grid.transform(c, same, same), c):
                    bad(f"{same}->{same} is not the identity")
            res.count("transform_roundtrips")
            res.case(("transform", gkey, kind), nontrivial=nontrivial_grid or kind not in ("inside", "centre"))
        # cartesian -> grid -> cartesian keeps the point up to the symmetry projection
        for _ in range(4):
            x = rng.uniform(-2, 2, size=grid.dim) * scale
            gp = grid.transform(x, "cartesian", "grid")
            x2 = grid.transform(gp, "grid", "cartesian")
            tol_pt = 64 * EPS * (scale + np.abs(x).max()) * 4
            if cls in ("UnitGrid", "CartesianGrid"):
                ok = np.abs(x2 - x).max() <= tol_pt
            elif cls == "CylindricalSymGrid":
                ok = abs(np.hypot(x2[0], x2[1]) - np.hypot(x[0], x[1])) <= tol_pt and abs(x2[2] - x[2]) <= tol_pt
            else:
                ok = abs(np.linalg.norm(x2) - np.linalg.norm(x)) <= tol_pt
            if not ok:
                bad("cartesian->grid->cartesian leaves the symmetry orbit of the point", point=x, grid_coords=gp, back=x2)
            res.count("transform_roundtrips")
        # centres map to index + 1/2
        idx = tuple(int(rng.integers(n)) for n in shape)
        centre = np.array([grid.axes_coords[ax][i] for ax, i in enumerate(idx)])
        cc = grid.transform(centre, "grid", "cell")
        if np.abs(cc - (np.array(idx) + 0.5)).max() > 64 * EPS * scale / dxs.min():
            bad("cell centre does not map to index+1/2", index=idx, cell_coords=cc)
        if not bool(grid.contains_point(centre, coords="grid")):
            bad("cell centre is not contained in the grid", index=idx)
        # batches must agree with single points
        for bshape in ((5,), (2, 3)):
            batch = cells[: int(np.prod(bshape))].reshape(*bshape, len(shape))
            out = grid.transform(batch, "cell", "grid")
            single = np.array([grid.transform(p, "cell", "grid") for p in batch.reshape(-1, len(shape))]).reshape(out.shape)
            if out.shape != batch.shape or not np.array_equal(out, single):
                bad(f"batched transform of shape {bshape} differs from per-point transform")
            cont = grid.contains_point(batch, coords="cell")
            single_c = np.array([bool(grid.contains_point(p, coords="cell")) for p in batch.reshape(-1, len(shape))]).reshape(bshape)
            if cont.shape != tuple(bshape) or not np.array_equal(cont, single_c):
                bad(f"batched contains_point of shape {bshape} differs from per-point results")
            res.count("batched_calls")

        # ---- (6) containment --------------------------------------------------------
        for c, kind in zip(cells, kinds):
            inside = all(0.001 <= ci <= n - 0.001 for ci, n in zip(c, shape))
            outside = any(ci < -0.001 or ci > n + 0.001 for ci, n in zip(c, shape))
            have = bool(grid.contains_point(c, coords="cell"))
            gp = lo + c * dxs
            have_g = bool(grid.contains_point(gp, coords="grid"))
            if inside and not (have and have_g):
                bad("interior point reported as not contained", cell=c)
            if outside and kind in ("outside", "far") and (have or have_g):
                bad("point clearly outside reported as contained", cell=c)
        sizes = [b[1] - b[0] for b in bounds]
        for coords in ("cartesian", "grid", "cell"):
            for bd_frac in (0.0, 0.2, 0.45):
                bd = bd_frac * min(sizes)
                kwargs = {"boundary_distance": bd, "coords": coords, "rng": np.random.default_rng(int(rng.integers(2**31)))}
                variants = [{}]
                if cls not in ("UnitGrid", "CartesianGrid"):
                    variants = [{"avoid_center": False}, {"avoid_center": True}]
                for extra in variants:
                    try:
                        p = grid.get_random_point(**kwargs, **extra)
                    except RuntimeError:
                        res.count("random_point_refused_too_close")
                        continue
                    if not bool(grid.contains_point(p, coords=coords)):
                        bad(f"get_random_point(coords={coords!r}, boundary_distance={bd}) not contained", point=p, **extra)
                    res.count("generated_points_contained")
                    res.case(("random_point", gkey, coords, bd_frac > 0, tuple(extra.values())), nontrivial=nontrivial_grid or bd_frac > 0)

        # ---- (7) normalisation ------------------------------------------------------
        hi = np.array([b[1] for b in bounds])
        span = hi - lo
        for c, kind in zip(cells, kinds):
            p = lo + c * dxs
            for reflect in (False, True):
                q = np.array(grid.normalize_point(p.copy(), reflect=reflect), dtype=float)
                periods = np.abs(p - lo) / span + 2
                tol_n = 64 * EPS * (scale + np.abs(p)) * 2
                for ax in range(len(shape)):
                    if periodic[ax]:
                        if not (lo[ax] - tol_n[ax] <= q[ax] <= hi[ax] + tol_n[ax]):
                            bad("normalised coordinate of a periodic axis lies outside the domain", point=p, normalised=q, axis=ax)
                        k = (q[ax] - p[ax]) / span[ax]
                        if abs(k - round(k)) * span[ax] > tol_n[ax] * periods[ax]:
                            bad("normalisation moved a point by a non-integer number of periods", point=p, normalised=q, axis=ax)
                    elif reflect:
                        if not (lo[ax] - tol_n[ax] <= q[ax] <= hi[ax] + tol_n[ax]):
                            bad("reflected coordinate lies outside the domain", point=p, normalised=q, axis=ax)
                        k1 = (q[ax] - p[ax]) / (2 * span[ax])
                        k2 = (q[ax] + p[ax] - 2 * lo[ax]) / (2 * span[ax])
                        if min(abs(k1 - round(k1)), abs(k2 - round(k2))) * 2 * span[ax] > tol_n[ax] * periods[ax]:
                            bad("reflection is not a composition of mirror images at the walls", point=p, normalised=q, axis=ax)
                    elif q[ax] != p[ax]:
                        bad("normalisation changed a non-periodic coordinate without reflect", point=p, normalised=q, axis=ax)
                q2 = np.array(grid.normalize_point(q.copy(), reflect=reflect), dtype=float)
                # idempotent up to round-off; a point within round-off of the upper face of a
                # periodic axis may wrap to the lower face (same physical point)
                diff = np.abs(q2 - q)
                for ax in range(len(shape)):
                    wrapped = periodic[ax] and abs(diff[ax] - span[ax]) <= tol_n[ax] * 4
                    if diff[ax] > tol_n[ax] * 4 and not wrapped:
                        bad("normalisation is not idempotent", point=p, once=q, twice=q2, axis=ax)
                res.count("normalisations_checked")
                res.case(("normalize", gkey, kind, reflect), nontrivial=nontrivial_grid or kind not in ("inside", "centre"))
        # batch normalisation
        batch = (lo + cells[:6] * dxs).reshape(2, 3, len(shape))
        nb = np.array(grid.normalize_point(batch.copy(), reflect=True))
        single = np.array([grid.normalize_point(p.copy(), reflect=True) for p in batch.reshape(-1, len(shape))]).reshape(nb.shape)
        if not np.array_equal(nb, single):
            bad("batched normalize_point differs from per-point results")
        res.count("batched_calls")
        arr = (lo + cells[0] * dxs).astype(float)
        before = arr.copy()
        grid.normalize_point(arr, reflect=True)
        if not np.array_equal(arr, before):
            res.count("observation_normalize_point_mutates_input")

        # ---- (7b) input formats: integer-valued points as lists / integer arrays ---------------
        for c in cells[:4]:
            pf = np.round(lo + c * dxs + rng.integers(-3, 4, size=len(shape)) * span)
            forms = {"list of ints": [int(v) for v in pf], "int64 array": pf.astype(np.int64), "list of floats": [float(v) for v in pf]}
            for reflect in (False, True):
                want = np.array(grid.normalize_point(pf.copy(), reflect=reflect), dtype=float)
                for fname, given in forms.items():
                    try:
                        have = np.array(grid.normalize_point(given, reflect=reflect), dtype=float)
                    except Exception as exc:
                        bad(f"normalize_point raised {type(exc).__name__} for a point given as {fname}: {str(exc)[:100]}", point=pf)
                        continue
                    if have.shape != want.shape or not np.array_equal(have, want):
                        bad(f"normalize_point of a point given as {fname} differs from the same point given as float64 array", point=pf, have=have, want=want, reflect=reflect)
                    res.count("input_format_calls")
            q = lo + cells[0] * dxs
            try:
                d_int = float(grid.distance([int(v) for v in pf], q))
                d_flt = float(grid.distance(pf.copy(), q))
                if not (abs(d_int - d_flt) <= 64 * EPS * (abs(d_flt) + float(np.abs(pf).max()) + float(scale))):
                    bad("distance of a point given as list of ints differs from the same point given as floats", point=pf, other=q, have=d_int, want=d_flt)
                res.count("input_format_calls")
            except Exception as exc:
                bad(f"distance raised {type(exc).__name__} for a point given as list of ints: {str(exc)[:100]}", point=pf)

        # ---- (8) distances ----------------------------------------------------------
        for _ in range(10):
            c1 = np.array([rng.uniform(0, n) for n in shape])
            c2 = np.array([rng.uniform(0, n) for n in shape])
            if rng.random() < 0.3:  # near opposite faces of the domain
                c1 = np.array([rng.uniform(0, 0.2) for n in shape])
                c2 = np.array([n - rng.uniform(0, 0.2) for n in shape])
            p1, p2 = lo + c1 * dxs, lo + c2 * dxs
            d12 = float(grid.distance(p1, p2))
            d21 = float(grid.distance(p2, p1))
            tol_d = 64 * EPS * scale * 4
            if abs(d12 - d21) > tol_d:
                bad("distance is not symmetric", p1=p1, p2=p2, d12=d12, d21=d21)
            if float(grid.distance(p1, p1)) > tol_d:
                bad("distance of a point to itself is not zero", p1=p1)
            # own Euclidean value with minimal-image convention on periodic grid axes
            delta = p2 - p1
            if cls in ("UnitGrid", "CartesianGrid"):
                comp = [((d + s / 2) % s - s / 2) if per else d for d, s, per in zip(delta, span, periodic)]
            elif cls == "CylindricalSymGrid":
                dz = ((delta[1] + span[1] / 2) % span[1] - span[1] / 2) if periodic[1] else delta[1]
                comp = [delta[0], dz]
            else:
                comp = [delta[0]]
            want = float(np.linalg.norm(comp))
            if abs(d12 - want) > tol_d:
                mech = None
                bad("distance differs from the minimal-image Euclidean distance", p1=p1, p2=p2, have=d12, want=want)
            vec = np.asarray(grid.difference_vector(p1, p2), dtype=float)
            if vec.shape != (grid.dim,) or abs(float(np.linalg.norm(vec)) - d12) > tol_d:
                bad("difference_vector has wrong shape or norm != distance", vec=vec, d=d12)
            vec_back = np.asarray(grid.difference_vector(p2, p1), dtype=float)
            half = [abs(abs(v) - s / 2) <= tol_d for v, s in zip(vec, list(span) + [np.inf] * 3)]
            if np.abs(vec + vec_back).max() > tol_d and not any(half):
                bad("difference_vector(p1,p2) != -difference_vector(p2,p1)", vec=vec, back=vec_back)
            # periodic Cartesian components never exceed half a period
            if cls in ("UnitGrid", "CartesianGrid"):
                per_cart = list(zip(range(grid.dim), periodic, span))
            elif cls == "CylindricalSymGrid":
                per_cart = [(2, periodic[1], span[1])]
            else:
                per_cart = []
            for i, per, s in per_cart:
                if per and abs(vec[i]) > s / 2 + tol_d:
                    bad(f"difference vector uses more than half a period along Cartesian component {i}", vec=vec, period=float(s))
                if per:
                    for k in (1, -2, 7):
                        shift = np.zeros(len(shape))
                        shift[1 if cls == "CylindricalSymGrid" else i] = k * s
                        for a, b in ((p1 + shift, p2), (p1, p2 + shift)):
                            dk = float(grid.distance(a, b))
                            if abs(dk - d12) > tol_d * (abs(k) + 1):
                                bad(f"distance is not invariant under a shift by {k} periods", p1=a, p2=b, d=d12, shifted=dk)
            # cartesian input route
            x1, x2 = grid.transform(p1, "grid", "cartesian"), grid.transform(p2, "grid", "cartesian")
            dc = float(grid.distance(x1, x2, coords="cartesian"))
            if abs(dc - d12) > tol_d:
                bad("distance with coords='cartesian' differs from coords='grid'", d_grid=d12, d_cart=dc)
            dcell = float(grid.distance(c1, c2, coords="cell"))
            if abs(dcell - d12) > tol_d:
                bad("distance with coords='cell' differs from coords='grid'", d_grid=d12, d_cell=dcell)
            res.count("distance_laws_checked")
            res.case(("distance", gkey), nontrivial=nontrivial_grid)
        if case_no < 2:
            res.sample({"grid": gspec, "cells": cells[:3].tolist(), "kinds": kinds[:3], "volume": float(grid.volume)})
    return res
