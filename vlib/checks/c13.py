"""C13 — stochastic steps add exactly the documented noise, reproducibly.

Events: final and per-step states (tracker with interrupts=dt) of ``eq.solve(...,
backend='numpy')`` for the package's SDE classes and for a harness SDE with field-dependent
variance, the equation's generator after the run, and single compiled (numba) steps on large
grids.
Oracle: an independent Euler-Maruyama / Milstein / semi-implicit model driven by
``numpy.random.default_rng(seed)`` with the same seed — equality to round-off at every step —,
bit-identity of two runs with the same seed, the deterministic result for vanishing variance,
the generator position (next draw equals the model's next draw), and 6-sigma moment bounds on
the standardised increments of the compiled backend.
"""

from __future__ import annotations

import numpy as np

from .. import gen
from ..runner import ShardResult

PROPERTY = "C13"
LEVEL = "exploration"
RULE = (
    "A case is one seeded run: (equation: Diffusion/AllenCahn/expression-PDE with additive noise or "
    "harness SDE with variance b + c*u^2; grid incl. polar/spherical/cylindrical with non-uniform "
    "cell volumes; state scalar/vector/tensor/collection with per-field variances as list or dict; "
    "interpretation ito/stratonovich/anti-ito (+aliases); solver euler/milstein/implicit; dt; "
    "1-50 steps; seed). Distinct = distinct (equation kind, grid class, state kind, variance "
    "form, interpretation, solver, dt class); non-trivial = non-zero variance and at least 2 "
    "steps (increments of successive steps use successive draws)."
)
ASSUMPTIONS = [
    "the deterministic rate used by the model is the package's own evolution_rate (the property concerns the noise terms)",
    "the semi-implicit solver is run with maxerror=1e-13*scale so that its fixed-point iteration is converged; the model iterates the same map to convergence",
    "numba backend: the generator cannot be seeded through rng; only the scaling law of the increments is judged (false-alarm probability per run < 1e-8)",
]
REQUIRED = {
    "seeded_runs_replayed": 200,
    "steps_compared": 1500,
    "generator_positions_checked": 150,
    "bit_reproducibility_checked": 60,
    "zero_variance_checked": 20,
    "multiplicative_noise_runs": 40,
    "nonuniform_volume_runs": 60,
    "collection_runs": 30,
    "collection_runs_with_vector_member": 10,
    "numba_moment_checks": 3,
    "solvers_seen": 3,
}
ALPHA = {"ito": 0.0, "itô": 0.0, "stratonovich": 0.5, "anti-ito": 1.0, "anti-itô": 1.0, "hänggi-klimontovich": 1.0, "hanggi-klimontovich": 1.0}


def plan(tier: str, seed: int) -> list[dict]:
    quick = tier == "quick"
    shards = [{"kind": "replay", "mode": "jit", "cases": 30 if quick else 150, "timeout": 1500 if quick else 4000} for _ in range(12 if quick else 40)]
    for i in range(3 if quick else 8):
        shards.append({"kind": "moments", "mode": "jit", "variant": i, "timeout": 1800})
    return shards


def make_harness_sde(b, c, a, interpretation, seed):
    """du/dt = a*u + noise with variance b + c*u^2 (field dependent)."""
    from pde.pdes.base import SDEBase

    class HarnessSDE(SDEBase):
        def __init__(self):
            super().__init__(noise=1.0, noise_interpretation=interpretation, rng=seed)

        def evolution_rate(self, state, t=0):
            return a * state

        def make_evolution_rate(self, state, backend):
            def rhs(arr, t):
                return a * arr

            return rhs

        def make_noise_variance(self, state, backend="numpy", *, ret_diff=False):
            if ret_diff:

                def var_diff(arr, t):
                    return b + c * arr**2, 2 * c * arr

                return var_diff

            def var(arr, t):
                return b + c * arr**2

            return var

    return HarnessSDE()


def build_case(rng):
    import pde

    kind = str(rng.choice(["diffusion", "kpz", "expression", "harness", "harness", "collection"]))
    gspec = gen.random_grid_spec(rng, sizes=(2, 3, 5), max_cells=40, tame=True)
    grid = gen.make_grid(gspec)
    seed = int(rng.integers(1, 2**31))
    dxmin = float(np.min(grid.discretization))
    dt = float(rng.choice([1e-3, 1e-2, 0.1])) * min(1.0, dxmin**2)
    steps = int(rng.choice([1, 2, 3, 5, 10, 50], p=[0.1, 0.2, 0.2, 0.2, 0.2, 0.1]))
    solver = str(rng.choice(["euler", "euler", "milstein", "implicit"]))
    interp = "ito"
    var_form = "scalar"
    state_kind = "scalar"
    multiplicative = False
    if kind == "diffusion":
        noise = float(np.round(rng.uniform(0.1, 2), 2))
        eq = pde.DiffusionPDE(diffusivity=0.5, noise=noise, rng=seed, bc="auto_periodic_neumann")
        state = pde.ScalarField(grid, rng.uniform(-1, 1, size=grid.shape))
        var_fn = lambda u: (np.full(u.shape, noise), np.zeros(u.shape))  # noqa: E731
    elif kind == "kpz":
        noise = float(np.round(rng.uniform(0.1, 1), 2))
        eq = pde.KPZInterfacePDE(nu=0.4, lmbda=0.7, noise=noise, rng=seed, bc="auto_periodic_neumann")
        state = pde.ScalarField(grid, rng.uniform(-1, 1, size=grid.shape))
        var_fn = lambda u: (np.full(u.shape, noise), np.zeros(u.shape))  # noqa: E731
    elif kind == "expression":
        noise = float(np.round(rng.uniform(0.1, 1), 2))
        eq = pde.PDE({"u": "-0.5 * u + 0.1 * laplace(u)"}, noise=noise, rng=seed, bc="auto_periodic_neumann")
        state = pde.ScalarField(grid, rng.uniform(-1, 1, size=grid.shape))
        var_fn = lambda u: (np.full(u.shape, noise), np.zeros(u.shape))  # noqa: E731
    elif kind == "harness":
        b, c, a = float(np.round(rng.uniform(0.1, 1), 2)), float(np.round(rng.uniform(0.1, 1), 2)), -float(np.round(rng.uniform(0.1, 1), 2))
        interp = str(rng.choice(list(ALPHA)))
        eq = make_harness_sde(b, c, a, interp, seed)
        rank = int(rng.choice([0, 0, 1, 2]))
        cls = [pde.ScalarField, pde.VectorField, pde.Tensor2Field][rank]
        state = cls(grid, rng.uniform(-1, 1, size=(grid.dim,) * rank + tuple(grid.shape)))
        state_kind = ["scalar", "vector", "tensor"][rank]
        var_fn = lambda u: (b + c * u**2, 2 * c * u)  # noqa: E731
        var_form = "field-dependent"
        multiplicative = True
    else:
        form = str(rng.choice(["list", "dict", "scalar"]))
        # collections of scalar and vector fields in varying order; every field has its own variance,
        # which applies to all of its components
        layout = [["u", "w"], ["p", "u"], ["u", "p"], ["u", "p", "w"], ["p", "w", "u"]][int(rng.integers(5))]
        rhs_all = {"u": "-0.3 * u + 0.1 * laplace(u)", "w": "-0.1 * w + 0.2 * u", "p": "-0.2 * p"}
        if "w" in layout:
            rhs_all["u"] = "-0.3 * u + 0.2 * w"
        rhs = {k: rhs_all[k] for k in layout}
        ns = [float(np.round(rng.uniform(0.1, 2), 2)) for _ in layout]
        if rng.random() < 0.3 and form != "scalar":
            ns[int(rng.integers(len(ns)))] = 0.0  # one field without noise (the equation stays stochastic)
        if form == "scalar":
            ns = [ns[0]] * len(layout)
        noise = {"list": list(ns), "dict": dict(zip(layout, ns)), "scalar": ns[0]}[form]
        eq = pde.PDE(rhs, noise=noise, rng=seed, bc="auto_periodic_neumann")
        members, rows = [], []
        for name, n in zip(layout, ns):
            if name == "p":
                members.append(pde.VectorField(grid, rng.uniform(-1, 1, size=(grid.dim, *grid.shape))))
                rows += [n] * grid.dim
            else:
                members.append(pde.ScalarField(grid, rng.uniform(-1, 1, size=grid.shape)))
                rows.append(n)
        state = pde.FieldCollection(members)
        state_kind = "collection"
        var_form = "per-field " + form + (" with vector member" if "p" in layout else "")

        def var_fn(u, rows=tuple(rows)):
            v = np.empty(u.shape)
            for k, n in enumerate(rows):
                v[k] = n
            return v, np.zeros(u.shape)

    if solver == "milstein" and not multiplicative and rng.random() < 0.5:
        solver = "euler"
    descr = {"equation": kind, "grid": gspec, "state": state_kind, "variance": var_form, "interpretation": interp, "solver": solver,
             "dt": dt, "steps": steps, "seed": seed}
    return eq, state, var_fn, descr, multiplicative


def model_run(eq, state, var_fn, descr, implicit_tol):
    """Independent replay of the seeded run; yields the state after every step."""
    g = np.random.default_rng(descr["seed"])
    dt, steps, solver = descr["dt"], descr["steps"], descr["solver"]
    alpha = ALPHA[descr["interpretation"]]
    V = np.asarray(state.grid.cell_volumes, dtype=float)
    V = np.broadcast_to(V, state.grid.shape)
    u = state.data.copy()
    work = state.copy()
    out = [u.copy()]
    for n in range(steps):
        t = n * dt
        work.data = u
        rate = eq.evolution_rate(work, t).data
        var, dvar = var_fn(u)
        xi = g.standard_normal(u.shape)
        if solver == "euler":
            u = u + dt * rate + np.sqrt(dt) * np.sqrt(var / V) * xi + 0.5 * dt * alpha * dvar / V
        elif solver == "milstein":
            dW = np.sqrt(dt) * xi
            u = u + dt * rate + 0.5 * dt * alpha * dvar / V + np.sqrt(var / V) * dW + 0.25 * dvar / V * (dW**2 - dt)
        else:  # semi-implicit: noise added to the state the iteration starts from
            start = u + np.sqrt(dt * var / V) * xi
            new = start + dt * rate
            for _ in range(5000):
                work.data = new
                nxt = start + dt * eq.evolution_rate(work, t + dt).data
                done = np.abs(nxt - new).max() < implicit_tol * 1e-3
                new = nxt
                if done:
                    break
            u = new
        out.append(u.copy())
    return out, g


def run_replay_shard(spec, res: ShardResult, rng):
    import pde

    for case_no in range(spec["cases"]):
        rng_state = rng.bit_generator.state
        try:
            eq, state, var_fn, descr, multiplicative = build_case(rng)
        except Exception as exc:
            res.violation(f"constructing the equation raised {type(exc).__name__}: {str(exc)[:200]}", {"shard": spec["index"], "case": case_no})
            continue
        solver, dt, steps = descr["solver"], descr["dt"], descr["steps"]
        scale = float(np.abs(state.data).max()) + 1.0
        kwargs = {}
        implicit_tol = 1e-13 * scale * 10
        if solver == "implicit":
            kwargs = {"maxerror": implicit_tol, "maxiter": 5000}
        record = []
        tracker = pde.trackers.CallbackTracker(lambda s, t: record.append((float(t), s.data.copy())), interrupts=dt)
        try:
            final = eq.solve(state, t_range=steps * dt, dt=dt, solver=solver, backend="numpy", tracker=[tracker], **kwargs)
        except Exception as exc:
            res.violation(f"solve raised {type(exc).__name__}: {str(exc)[:200]}", descr)
            continue
        try:
            model, g = model_run(eq, state, var_fn, descr, implicit_tol)
        except Exception as exc:
            res.notes.append(f"model failed: {exc}")
            res.count("model_failures")
            continue
        res.count("seeded_runs_replayed")
        res.seen("solvers_seen", solver)
        if multiplicative:
            res.count("multiplicative_noise_runs")
        V = np.asarray(state.grid.cell_volumes)
        if np.ndim(V) and np.ptp(V) > 1e-12 * np.max(V):
            res.count("nonuniform_volume_runs")
        if descr["state"] == "collection":
            res.count("collection_runs")
            if "vector member" in descr["variance"]:
                res.count("collection_runs_with_vector_member")
        tol_rel = (1e-9 if solver == "implicit" else 1e-12)
        bad = False
        for n, (t, data) in enumerate(record):
            if n >= len(model):
                break
            ref = model[n]
            mag = np.abs(ref).max() + scale
            err = float(np.abs(data - ref).max())
            res.count("steps_compared")
            if err > tol_rel * mag * (n + 2):
                incr = float(np.abs(model[n] - model[n - 1]).max()) if n else 0.0
                res.violation(
                    f"state after {n} steps differs from the seeded {solver} model by {err:.3g} (increment size {incr:.3g})", descr,
                    step=n, have=data.ravel()[:4], want=ref.ravel()[:4],
                )
                bad = True
                break
        if len(record) != steps + 1:
            res.violation(f"tracker with interrupts=dt saw {len(record)} states for {steps} steps", descr)
        if not bad and float(np.abs(final.data - model[-1]).max()) > tol_rel * (np.abs(model[-1]).max() + scale) * (steps + 2):
            res.violation("final state differs from the seeded model", descr)
        # generator position: the next draw of the equation's generator is the model's next draw
        if not bad:
            a_, b_ = eq.rng.standard_normal(3), g.standard_normal(3)
            res.count("generator_positions_checked")
            if not np.array_equal(a_, b_):
                res.violation("the equation's generator is not in the state of the model generator after the run (draws consumed differ)", descr)
        # same seed twice: bit-identical
        if case_no % 3 == 0:
            rng2 = np.random.default_rng()
            rng2.bit_generator.state = rng_state
            eq2, state2, _, descr2, _ = build_case(rng2)  # identical equation, state and seed
            final2 = eq2.solve(state2, t_range=steps * dt, dt=dt, solver=solver, backend="numpy", tracker=None, **kwargs)
            res.count("bit_reproducibility_checked")
            if descr2["seed"] != descr["seed"] or final2.data.tobytes() != final.data.tobytes():
                res.violation("two runs with the same seed are not bit-identical", descr)
        res.case((descr["equation"], descr["grid"]["cls"], descr["state"], descr["variance"], descr["interpretation"], solver, dt > 1e-3), nontrivial=steps >= 2)
        if case_no < 2:
            res.sample({**descr, "first_increment": (record[1][1] - record[0][1]).ravel()[:3].tolist() if len(record) > 1 else None})
    # vanishing variance gives the deterministic result
    for k in range(4):
        gspec = gen.random_grid_spec(rng, sizes=(3, 5), max_cells=30, tame=True)
        grid = gen.make_grid(gspec)
        state = pde.ScalarField(grid, rng.uniform(-1, 1, size=grid.shape))
        dt = 1e-3 * float(np.min(grid.discretization)) ** 2
        a = pde.DiffusionPDE(noise=0, rng=5, bc="auto_periodic_neumann").solve(state, t_range=5 * dt, dt=dt, backend="numpy", tracker=None)
        b = pde.DiffusionPDE(bc="auto_periodic_neumann").solve(state, t_range=5 * dt, dt=dt, backend="numpy", tracker=None)
        res.count("zero_variance_checked")
        if a.data.tobytes() != b.data.tobytes():
            res.violation("zero noise variance does not give the deterministic result", {"grid": gspec})
        res.case(("zero variance", gspec["cls"]))


def run_moments_shard(spec, res: ShardResult, rng):
    """Compiled backend: standardised one-step increments must be standard normal."""
    import pde

    variant = spec["variant"] % 3
    if variant == 0:
        grid = pde.CylindricalSymGrid(3.0, (0, 2.0), (340, 330))
        gname = "CylindricalSymGrid 340x330"
    elif variant == 1:
        grid = pde.UnitGrid([350, 300], periodic=True)
        gname = "UnitGrid 350x300"
    else:
        grid = pde.SphericalSymGrid((0.5, 4.0), 120000)
        gname = "SphericalSymGrid 120000 (annulus)"
    sigma2 = 0.7
    dt = 1e-4 * float(np.min(grid.discretization)) ** 2
    eq = pde.DiffusionPDE(diffusivity=0.3, noise=sigma2, bc="auto_periodic_neumann")
    state = pde.ScalarField(grid, rng.uniform(-1, 1, size=grid.shape))
    solver = ["euler", "milstein", "euler"][variant]
    case = {"grid": gname, "solver": solver, "backend": "numba", "dt": dt, "variance": sigma2}
    try:
        new = eq.solve(state, t_range=dt, dt=dt, solver=solver, backend="numba", tracker=None)
    except Exception as exc:
        res.violation(f"compiled stochastic step raised {type(exc).__name__}: {str(exc)[:200]}", case)
        return
    rate = eq.evolution_rate(state, 0).data
    V = np.broadcast_to(np.asarray(grid.cell_volumes, dtype=float), grid.shape)
    z = (new.data - state.data - dt * rate) / np.sqrt(sigma2 * dt / V)
    n = z.size
    mean, var = float(z.mean()), float(z.var())
    kurt = float(((z - mean) ** 4).mean() / var**2)
    res.count("numba_moment_checks")
    res.seen("solvers_seen", solver)
    res.stat_max("abs_mean_times_sqrt_n", abs(mean) * np.sqrt(n))
    if abs(mean) > 6 / np.sqrt(n) or abs(var - 1) > 6 * np.sqrt(2 / n) or abs(kurt - 3) > 6 * np.sqrt(24 / n) * 2:
        res.violation(
            f"standardised increments of the compiled step are not standard normal: mean {mean:.4g}, variance {var:.5g}, kurtosis {kurt:.4g} over {n} cells", case,
        )
    # volume dependence: variance per radial bin must not trend with the cell volume
    if variant in (0, 2):
        order = np.argsort(V.ravel())
        zs = z.ravel()[order]
        k = n // 8
        for i in range(8):
            vb = float(zs[i * k:(i + 1) * k].var())
            if abs(vb - 1) > 6 * np.sqrt(2 / k):
                res.violation(f"variance of standardised increments in volume octile {i} is {vb:.4g}: noise does not scale with 1/cell volume", case)
                break
    res.case(("moments", gname, solver))
    res.sample({**case, "samples": n, "mean": mean, "variance": var, "kurtosis": kurt})


def run_shard(spec: dict) -> ShardResult:
    res = ShardResult(spec)
    rng = np.random.default_rng([spec["seed"], 13, spec["index"]])
    if spec["kind"] == "replay":
        run_replay_shard(spec, res, rng)
    else:
        run_moments_shard(spec, res, rng)
    return res
