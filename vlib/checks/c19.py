"""C19 — vector and tensor components are tied to the right basis vectors.

Events: ``c.basis_rotation(points)`` of all six coordinate systems; for curvilinear grids the
components produced by ``from_expression``, read back by axis name, fed to ``dot``/``outer``
and to the differential operators, and the Cartesian vector field returned by
``VectorField.interpolate_to_grid(cartesian_grid)``.

Oracle: (a) rows of the rotation are orthonormal, right-handed and equal to the normalised
columns of an own finite-difference Jacobian of ``pos_to_cart`` (and of ``mapping_jacobian``);
(b) one geometric vector field, written in the order "grid axes, then symmetric axes"
((r, z, phi) on cylinders), must describe the same vector through every route: the conversion
is compared with an own multilinear interpolation of the components followed by an own
rotation with e_r, e_phi, e_theta, e_z; special fields (uniform axial, r*e_r, r*e_phi) must map
to (0,0,1), (x,y[,z]), (-y,x,0); conversion must commute with divergence/gradient up to a
discretisation error that shrinks under refinement.
"""

from __future__ import annotations

import numpy as np

from .. import gen
from ..runner import ShardResult
from .c02 import grid_info
from .c16 import model_interpolate

PROPERTY = "C19"
LEVEL = "exploration"
RULE = (
    "basis cases: (coordinate system incl. bipolar/bispherical with random scale parameter, random "
    "point away from coordinate singularities, single points and batches); component-order cases: "
    "(grid class polar/spherical/cylindrical, hole or not, shape, vector field kind: random smooth / "
    "uniform axial / r*e_r / r*e_phi / per-component expressions, target Cartesian grid inside the "
    "domain). Distinct = distinct (coordinate system or grid class, hole, field kind, route); "
    "non-trivial = all components of the field are non-zero and pairwise different at the probe "
    "points (so that any permutation of components is visible)."
)
ASSUMPTIONS = [
    "finite-difference Jacobian: central differences with relative step 1e-6, tolerance 1e-6 on normalised columns",
    "Tensor2Field conversion to Cartesian grids is not offered by the package (NotImplementedError) and is not judged",
    "known finding F8: the cylindrical vector conversion reads components in coordinate-system order (r, phi, z); matched by the alternative model 'components 1 and 2 swapped'",
]
REQUIRED = {
    "bases_checked": 1500,
    "coordinate_systems_seen": 6,
    "conversions_checked": 150,
    "named_access_checked": 150,
    "special_fields_checked": 60,
    "commutation_checked": 5,
    "cylinder_conversions": 20,
    "backend_product_routes_checked": 200,
    "complex_conversions_checked": 40,
}
EPS = 2.220446049250313e-16


def plan(tier: str, seed: int) -> list[dict]:
    quick = tier == "quick"
    shards = [{"kind": "bases", "mode": "nojit", "points": 600 if quick else 4000, "timeout": 900} for _ in range(4 if quick else 12)]
    for i in range(8 if quick else 32):
        shards.append({"kind": "order", "mode": "jit", "grids": 8 if quick else 25, "timeout": 1500 if quick else 4000, "known_finding_probe": i == 0})
    for _ in range(2 if quick else 6):
        shards.append({"kind": "commute", "mode": "jit", "cases": 3 if quick else 8, "timeout": 1800 if quick else 4000})
    return shards


# --------------------------------------------------------------------------------------
# (a) bases


def random_point(rng, name):
    if name.startswith("cartesian"):
        return rng.uniform(-3, 3, size=int(name[-1]))
    if name == "polar":
        return np.array([rng.uniform(0.05, 5), rng.uniform(0, 2 * np.pi)])
    if name == "spherical":
        return np.array([rng.uniform(0.05, 5), rng.uniform(0.05, np.pi - 0.05), rng.uniform(0, 2 * np.pi)])
    if name == "cylindrical":
        return np.array([rng.uniform(0.05, 5), rng.uniform(0, 2 * np.pi), rng.uniform(-3, 3)])
    if name == "bipolar":
        return np.array([rng.uniform(0.2, 2 * np.pi - 0.2), rng.choice([-1, 1]) * rng.uniform(0.1, 2)])
    if name == "bispherical":
        return np.array([rng.uniform(0.2, np.pi - 0.2), rng.choice([-1, 1]) * rng.uniform(0.1, 2), rng.uniform(0, 2 * np.pi)])
    raise ValueError(name)


def make_system(rng, name):
    from pde.grids import coordinates as C

    if name.startswith("cartesian"):
        return C.CartesianCoordinates(int(name[-1]))
    if name == "polar":
        return C.PolarCoordinates()
    if name == "spherical":
        return C.SphericalCoordinates()
    if name == "cylindrical":
        return C.CylindricalCoordinates()
    scale = float(np.round(rng.uniform(0.5, 3), 2))
    return C.BipolarCoordinates(scale) if name == "bipolar" else C.BisphericalCoordinates(scale)


def run_bases_shard(spec, res: ShardResult, rng):
    names = ["cartesian1", "cartesian2", "cartesian3", "polar", "spherical", "cylindrical", "bipolar", "bispherical"]
    for k in range(spec["points"]):
        name = names[k % len(names)]
        c = make_system(rng, name)
        p = random_point(rng, name)
        case = {"system": name, "point": p.tolist(), "scale_parameter": getattr(c, "scale_parameter", None)}
        try:
            R = np.asarray(c.basis_rotation(p), dtype=float)
        except Exception as exc:
            res.violation(f"basis_rotation raised {type(exc).__name__}: {exc}", case)
            continue
        dim = c.dim
        res.seen("coordinate_systems_seen", name.rstrip("123"))
        if R.shape != (dim, dim):
            res.violation(f"basis_rotation returned shape {R.shape}", case)
            continue
        if np.abs(R @ R.T - np.eye(dim)).max() > 1e-12:
            res.violation("local basis is not orthonormal", case, R=R)
            continue
        if abs(np.linalg.det(R) - 1) > 1e-12:
            res.violation(f"local basis is not right-handed (det = {np.linalg.det(R):.6f})", case, R=R)
            continue
        # own finite-difference Jacobian of the mapping
        J = np.empty((dim, dim))
        for j in range(dim):
            h = 1e-6 * max(1.0, abs(p[j]))
            dp = np.zeros(dim)
            dp[j] = h
            J[:, j] = (np.asarray(c.pos_to_cart(p + dp)) - np.asarray(c.pos_to_cart(p - dp))) / (2 * h)
        norms = np.linalg.norm(J, axis=0)
        E = (J / norms).T  # row j = unit vector along increasing coordinate j
        if np.abs(R - E).max() > 1e-6:
            j = int(np.argmax(np.abs(R - E).max(axis=1)))
            res.violation(f"basis vector {j} differs from the normalised Jacobian column of the mapping", case, have=R[j], want=E[j])
            continue
        try:
            Jp = np.asarray(c.mapping_jacobian(p), dtype=float)
            hp = np.asarray(c.scale_factors(p), dtype=float)
            if np.abs(Jp - J).max() > 1e-5 * (1 + np.abs(J).max()) or np.abs(hp - norms).max() > 1e-5 * (1 + norms.max()):
                res.violation("mapping_jacobian/scale_factors differ from the finite-difference Jacobian", case, jacobian=Jp, fd=J)
                continue
        except NotImplementedError:
            pass
        res.count("bases_checked")
        res.case(("basis", name), nontrivial=not name.startswith("cartesian"))
        if k < 2:
            res.sample({**case, "basis_rotation": R.tolist()})
    # batches
    for name in names[3:]:
        c = make_system(rng, name)
        pts = np.array([random_point(rng, name) for _ in range(6)]).reshape(2, 3, -1)
        R = np.asarray(c.basis_rotation(pts))
        single = np.array([[c.basis_rotation(pts[i, j]) for j in range(3)] for i in range(2)])
        if R.shape != (c.dim, c.dim, 2, 3) or np.abs(np.moveaxis(single, (0, 1), (-2, -1)) - R).max() > 1e-14:
            res.violation("batched basis_rotation differs from per-point results", {"system": name})
        res.count("bases_checked")


# --------------------------------------------------------------------------------------
# (b) component order


def local_basis(cls, x):
    """Own unit vectors (Cartesian components) in *grid component order* at Cartesian points."""
    x = np.asarray(x, dtype=float)
    if cls == "PolarSymGrid":
        r = np.hypot(x[..., 0], x[..., 1])
        er = np.stack([x[..., 0] / r, x[..., 1] / r], -1)
        ep = np.stack([-x[..., 1] / r, x[..., 0] / r], -1)
        return [er, ep], [r]
    if cls == "CylindricalSymGrid":
        r = np.hypot(x[..., 0], x[..., 1])
        zero = np.zeros_like(r)
        er = np.stack([x[..., 0] / r, x[..., 1] / r, zero], -1)
        ep = np.stack([-x[..., 1] / r, x[..., 0] / r, zero], -1)
        ez = np.stack([zero, zero, zero + 1], -1)
        return [er, ez, ep], [r, x[..., 2]]  # (r, z, phi)
    r = np.linalg.norm(x, axis=-1)
    rho = np.hypot(x[..., 0], x[..., 1])
    er = x / r[..., None]
    et = np.stack([x[..., 0] * x[..., 2] / (r * rho), x[..., 1] * x[..., 2] / (r * rho), -rho / r], -1)
    ep = np.stack([-x[..., 1] / rho, x[..., 0] / rho, np.zeros_like(r)], -1)
    return [er, et, ep], [r]


def target_grid(rng, cls, bounds, nz_bounds=None):
    """Cartesian grid whose cell centres lie inside the curvilinear domain."""
    import pde

    r_in, r_out = bounds[0]
    lo = r_in + 0.15 * (r_out - r_in)
    hi = r_out - 0.1 * (r_out - r_in)
    # box in the first quadrant between the radii lo..hi: x, y in [a, b] with a*sqrt(d) >= lo, b*sqrt(d) <= hi
    d = 2 if cls != "SphericalSymGrid" else 3
    a, b = lo / np.sqrt(1.0), hi / np.sqrt(d)
    if b <= a * 1.05:
        a, b = hi / np.sqrt(d) * 0.55, hi / np.sqrt(d)
        if np.sqrt(d) * a < lo:  # thin annulus: a single column of points near the x axis
            return None
    n = [int(rng.integers(1, 4)) for _ in range(d)]
    box = [[float(a), float(b)] for _ in range(d)]
    if cls == "CylindricalSymGrid":
        z0, z1 = nz_bounds
        box = box[:2] + [[float(z0 + 0.1 * (z1 - z0)), float(z1 - 0.1 * (z1 - z0))]]
        n = n[:2] + [int(rng.integers(1, 4))]
        # x,y box: radii between a and b*sqrt(2)
    signs = [rng.choice([-1, 1]) for _ in range(d if cls != "CylindricalSymGrid" else 2)]
    for i, s in enumerate(signs):
        if s < 0:
            box[i] = [-box[i][1], -box[i][0]]
    return pde.CartesianGrid(box, n)


def run_order_shard(spec, res: ShardResult, rng):
    import pde

    for gi in range(spec["grids"]):
        cls = str(rng.choice(["PolarSymGrid", "SphericalSymGrid", "CylindricalSymGrid"], p=[0.3, 0.3, 0.4]))
        if gi == 0 and spec.get("known_finding_probe"):
            cls = "CylindricalSymGrid"  # fixed witness of known finding F8
        gspec = gen.random_grid_spec(rng, classes=[cls], sizes=(3, 5, 8, 12), tame=True)
        grid = gen.make_grid(gspec)
        info = grid_info(gspec)
        hole = info["bounds"][0][0] > 0
        dim = grid.dim
        names = list(grid.axes) + list(grid.axes_symmetric)
        case0 = {"grid": gspec, "component_order": names}
        # ---- from_expression / named access / products --------------------------------
        exprs = {"r": "1 + r", "z": "2 + z" if "z" in grid.axes else "2.5", "φ": "3 + 0.5 * r", "θ": "4 + 0.25 * r"}
        order = [exprs[n] for n in names]
        v = pde.VectorField.from_expression(grid, order)
        coords = {ax: grid.cell_coords[..., i] for i, ax in enumerate(grid.axes)}
        want = {"r": 1 + coords["r"], "z": 2 + coords["z"] if "z" in coords else np.full(grid.shape, 2.5),
                "φ": 3 + 0.5 * coords["r"], "θ": 4 + 0.25 * coords["r"]}
        for k, n in enumerate(names):
            res.count("named_access_checked")
            if not np.allclose(v.data[k], want[n], rtol=1e-13, atol=0):
                res.violation(f"from_expression: component {k} does not hold the expression given for axis {n}", case0)
            try:
                if not np.array_equal(v[n].data, v.data[k]) or not np.array_equal(v[k].data, v.data[k]):
                    res.violation(f"access by name v[{n!r}] does not return component {k}", case0)
            except Exception as exc:
                res.violation(f"access by name v[{n!r}] raised {type(exc).__name__}: {exc}", case0)
        w = pde.VectorField(grid, rng.uniform(0.5, 1.5, size=v.data.shape))
        if not np.allclose(v.dot(w).data, (v.data * w.data).sum(axis=0), rtol=1e-13):
            res.violation("dot product is not the sum over equally indexed components", case0)
        outer = v.outer_product(w)
        for i in range(dim):
            for j in range(dim):
                if not np.allclose(outer.data[i, j], v.data[i] * w.data[j], rtol=1e-13):
                    res.violation(f"outer product entry [{i},{j}] is not v[{i}]*w[{j}]", case0)
                try:
                    if not np.array_equal(outer[names[i], names[j]].data, outer.data[i, j]):
                        res.violation(f"tensor access by names [{names[i]!r},{names[j]!r}] does not return entry [{i},{j}]", case0)
                except Exception as exc:
                    res.violation(f"tensor access by names raised {type(exc).__name__}: {exc}", case0)
        # ---- the same products through the backends' operators and through expressions ----
        if True:
            from pde.tools.expressions import evaluate

            want_outer = np.einsum("i...,j...->ij...", v.data, w.data)
            want_Tw = np.einsum("ij...,j...->i...", want_outer, w.data)
            want_wT = np.einsum("i...,ij...->j...", w.data, want_outer)
            T = pde.Tensor2Field(grid, want_outer)
            for backend in ("numpy", "numba") if gi < 2 else ("numpy",):  # compilation is slow: two grids per shard
                try:
                    op = v.make_outer_prod_operator(backend)
                    checks = [("outer operator", op(v.data, w.data), want_outer), ("outer operator (out=)", op(v.data, w.data, np.empty_like(want_outer)), want_outer)]
                    with_expressions = backend == "numpy" or gi == 0
                    if with_expressions:
                        checks.append(("evaluate('outer(a, b)')", evaluate("outer(a, b)", {"a": v, "b": w}, backend=backend).data, want_outer))
                    checks.append(("dot operator (vector, vector)", v.make_dot_operator(backend, conjugate=False)(v.data, w.data), (v.data * w.data).sum(axis=0)))
                    checks.append(("dot operator (tensor, vector)", T.make_dot_operator(backend, conjugate=False)(T.data, w.data), want_Tw))
                    checks.append(("dot operator (vector, tensor)", w.make_dot_operator(backend, conjugate=False)(w.data, T.data), want_wT))
                    if with_expressions:
                        checks.append(("evaluate('dot(T, b)')", evaluate("dot(T, b)", {"T": T, "b": w}, backend=backend).data, want_Tw))
                        checks.append(("evaluate('dot(b, T)')", evaluate("dot(b, T)", {"T": T, "b": w}, backend=backend).data, want_wT))
                    for name, have, want_ in checks:
                        res.count("backend_product_routes_checked")
                        if np.shape(have) != np.shape(want_) or not np.allclose(have, want_, rtol=1e-13, atol=0):
                            res.violation(f"{name} [{backend}] does not combine components index by index ((a (x) b)[i,j] = a[i] b[j], contraction over adjacent indices)",
                                          {**case0, "backend": backend})
                except Exception as exc:
                    res.violation(f"product operators on backend {backend} raised {type(exc).__name__}: {str(exc)[:200]}", {**case0, "backend": backend})
        res.case((cls, hole, "named", tuple(gen.grid_shape(gspec))), nontrivial=True)

        # ---- conversion to a Cartesian grid ------------------------------------------------
        tgt = target_grid(rng, cls, info["bounds"], info["bounds"][1] if cls == "CylindricalSymGrid" else None)
        if tgt is None:
            continue
        x = tgt.cell_coords
        basis, gcoords = local_basis(cls, x)
        fields = {"random": rng.uniform(0.5, 2.0, size=(dim, *grid.shape)) * (1 + np.arange(dim)).reshape((-1,) + (1,) * grid.num_axes)}
        r_c = coords["r"]
        zeros = np.zeros(grid.shape)
        if cls == "CylindricalSymGrid":
            fields["uniform axial"] = np.stack([zeros, zeros + 1, zeros])
            fields["r*e_r"] = np.stack([r_c, zeros, zeros])
            fields["r*e_phi"] = np.stack([zeros, zeros, r_c])
        elif cls == "PolarSymGrid":
            fields["r*e_r"] = np.stack([r_c, zeros])
            fields["r*e_phi"] = np.stack([zeros, r_c])
        else:
            fields["r*e_r"] = np.stack([r_c, zeros, zeros])
        # complex-valued vector field: the conversion is a real rotation and must act on real and
        # imaginary part alike
        fields["random complex"] = fields["random"] * (0.6 + 0.8j) + 1j * rng.uniform(0.5, 2.0, size=(dim, *grid.shape))
        for kind, data in fields.items():
            f = pde.VectorField(grid, data)
            case = {**case0, "field": kind, "target": {"bounds": [list(b) for b in tgt.axes_bounds], "shape": list(tgt.shape)}}
            try:
                conv = f.interpolate_to_grid(tgt).data
            except Exception as exc:
                res.violation(f"interpolate_to_grid raised {type(exc).__name__}: {str(exc)[:200]}", case)
                continue
            # own interpolation of each component at (r[, z]) and own rotation
            pts = np.stack(gcoords, -1).reshape(-1, len(gcoords))
            comps = np.array([[model_interpolate(info, data[k].real, p)[0] for p in pts] for k in range(dim)]).reshape((dim, *tgt.shape))
            if np.iscomplexobj(data):
                res.count("complex_conversions_checked")
                comps = comps + 1j * np.array([[model_interpolate(info, data[k].imag, p)[0] for p in pts] for k in range(dim)]).reshape((dim, *tgt.shape))
            want = sum(comps[k][..., None] * basis[k] for k in range(dim))
            want = np.moveaxis(want, -1, 0)
            tol = 1e-11 * (np.abs(data).max() + 1)
            res.count("conversions_checked")
            if cls == "CylindricalSymGrid":
                res.count("cylinder_conversions")
            ok = conv.shape == want.shape and np.abs(conv - want).max() <= tol
            if not kind.startswith("random"):
                res.count("special_fields_checked")
                xs = np.moveaxis(x, -1, 0)
                geo = {"uniform axial": np.stack([0 * xs[0], 0 * xs[0], 0 * xs[0] + 1]) if dim == 3 else None,
                       "r*e_r": np.stack([xs[0], xs[1], 0 * xs[0]]) if cls == "CylindricalSymGrid" else xs.copy(),
                       "r*e_phi": np.stack([-xs[1], xs[0], 0 * xs[0]][: dim])}[kind]
                # r*e_r and r*e_phi are linear in r: multilinear interpolation is exact between cell centres
                inside = (gcoords[0] >= grid.axes_coords[0][0]) & (gcoords[0] <= grid.axes_coords[0][-1])
                if inside.all() and np.abs(want - geo).max() > 1e-10 * (np.abs(geo).max() + 1):
                    res.notes.append("harness: geometric expectation and interpolation model disagree")
                elif inside.all() and np.abs(conv - geo).max() > 1e-10 * (np.abs(geo).max() + 1):
                    ok = False
            if not ok:
                mech = None
                if cls == "CylindricalSymGrid":
                    alt = sum(comps[k][..., None] * basis[j] for k, j in zip(range(3), (0, 2, 1)))  # components read as (r, phi, z)
                    alt = np.moveaxis(alt, -1, 0)
                    if conv.shape == alt.shape and np.abs(conv - alt).max() <= tol:
                        mech = "cylinder-vector-to-cartesian-uses-r-phi-z-order"
                res.violation(
                    "vector field converted to a Cartesian grid is not the same geometric vector", case, mechanism=mech,
                    have=conv.reshape(dim, -1)[:, 0], want=want.reshape(dim, -1)[:, 0],
                )
            distinct = kind.startswith("random")
            res.case((cls, hole, kind, "convert", tuple(gen.grid_shape(gspec)), tuple(tgt.shape)), nontrivial=distinct)
        if gi < 1:
            res.sample({**case0, "expressions": order, "target_cells": int(np.prod(tgt.shape))})


# --------------------------------------------------------------------------------------
# (c) conversion commutes with divergence / gradient


def run_commute_shard(spec, res: ShardResult, rng):
    import pde

    for case_no in range(spec["cases"]):
        cls = ["PolarSymGrid", "SphericalSymGrid", "CylindricalSymGrid"][case_no % 3]
        errs, fixed_errs = {}, {}
        a, b, c = (float(x) for x in np.round(rng.uniform(0.3, 0.9, size=3), 2))
        for N in (24, 48):
            if cls == "CylindricalSymGrid":
                grid = pde.CylindricalSymGrid(2.0, (-1.0, 1.0), (N, N))
                vexpr = [f"r * cos({a} * r**2) * (1 + 0.3 * z)", f"sin({b} * z) + {c} * r**2", f"r * (0.5 + {c} * r**2)"]
                sexpr = f"cos({a} * r**2) * (1 + {b} * z) + {c} * z**2"
                tgt = pde.CartesianGrid([[0.2, 1.0], [0.3, 0.9], [-0.5, 0.5]], 4)
            elif cls == "PolarSymGrid":
                grid = pde.PolarSymGrid(2.0, N)
                vexpr = [f"r * cos({a} * r**2)", f"r * (0.5 + {c} * r**2)"]
                sexpr = f"cos({a} * r**2) + {c} * r**2"
                tgt = pde.CartesianGrid([[0.2, 1.0], [0.3, 0.9]], 4)
            else:
                grid = pde.SphericalSymGrid(2.0, N)
                vexpr = [f"r * cos({a} * r**2)", "0", "0"]
                sexpr = f"cos({a} * r**2) + {c} * r**2"
                tgt = pde.CartesianGrid([[0.2, 0.9], [0.3, 0.8], [0.25, 0.85]], 4)
            v = pde.VectorField.from_expression(grid, vexpr)
            s = pde.ScalarField.from_expression(grid, sexpr)
            bc_v = "derivative"
            # route A: operator on the curvilinear grid, then conversion
            divA = v.divergence(bc_v).interpolate_to_grid(tgt).data
            gradA = s.gradient("derivative").interpolate_to_grid(tgt).data
            # route B: conversion to a finer Cartesian grid, then Cartesian operator, then sampling
            fine = pde.CartesianGrid([[b0 - 0.1, b1 + 0.1] for b0, b1 in tgt.axes_bounds], [N // 2] * tgt.dim)
            vB = v.interpolate_to_grid(fine)
            sB = s.interpolate_to_grid(fine)
            divB = vB.divergence("derivative").interpolate_to_grid(tgt).data
            gradB = sB.gradient("derivative").interpolate_to_grid(tgt).data
            errs[N] = (float(np.abs(divA - divB).max()), float(np.abs(gradA - gradB).max()), float(np.abs(divA).max() + 1), float(np.abs(gradA).max() + 1))
            if cls == "CylindricalSymGrid":
                swap = lambda f: pde.VectorField(f.grid, f.data[[0, 2, 1]])  # noqa: E731
                gradA2 = swap(s.gradient("derivative")).interpolate_to_grid(tgt).data
                vB2 = swap(v).interpolate_to_grid(fine)
                divB2 = vB2.divergence("derivative").interpolate_to_grid(tgt).data
                fixed_errs[N] = (float(np.abs(divA - divB2).max()), float(np.abs(gradA2 - gradB).max()))
        case = {"grid_class": cls, "vector": vexpr, "scalar": sexpr, "errors": {str(k): v_[:2] for k, v_ in errs.items()}}
        res.count("commutation_checked")
        for idx, what in ((0, "divergence"), (1, "gradient")):
            e1, e2 = errs[24][idx], errs[48][idx]
            scale = errs[48][2 + idx]
            if e2 > 0.75 * e1 + 1e-9 and e2 > 2e-2 * scale:
                mech = None
                if cls == "CylindricalSymGrid":
                    # alternative model: hand the package the components in (r, phi, z) order;
                    # if the two routes then agree, the mismatch is the known conversion order
                    f1, f2 = fixed_errs[24][idx], fixed_errs[48][idx]
                    if f2 <= 0.75 * f1 + 1e-9 or f2 <= 2e-2 * scale:
                        mech = "cylinder-vector-to-cartesian-uses-r-phi-z-order"
                res.violation(f"conversion to a Cartesian grid does not commute with the {what}: mismatch {e1:.3g} -> {e2:.3g} under refinement", case, mechanism=mech)
        res.case((cls, "commute"))


def run_shard(spec: dict) -> ShardResult:
    res = ShardResult(spec)
    rng = np.random.default_rng([spec["seed"], 19, spec["index"]])
    if spec["kind"] == "bases":
        run_bases_shard(spec, res, rng)
    elif spec["kind"] == "order":
        run_order_shard(spec, res, rng)
    else:
        run_commute_shard(spec, res, rng)
    return res
