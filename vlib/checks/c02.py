"""C02 — boundary conditions hold exactly at the discrete boundary.

Events: the padded array before and after ``field.set_ghost_cells(spec, args=...)``
(interpreted), after the numba backend's compiled setter and after the numpy backend's
setter, with ghost cells pre-filled by unique sentinels.  Oracle: the defining equation of
every face cell evaluated by :mod:`vlib.models.bc` plus bit-identity of every entry that
must not change.
"""

from __future__ import annotations

import numpy as np

from .. import gen
from ..models import bc as bcm
from ..models import stencils
from ..runner import ShardResult

PROPERTY = "C02"
LEVEL = "exploration"
RULE = (
    "A case is one (grid, field rank/dtype, structured conditions for every axis and side, "
    "specification format, route). Conditions are drawn per side from value/derivative/mixed/"
    "curvature x normal flag x every alias x value form (zero, constant, tensor, per-face array, "
    "string expression, time-dependent *_expression), periodic/anti-periodic on periodic axes; "
    "formats: single string/dict for all sides, typed dict, single-item dict, per-side keys, "
    "axis keys, wildcard, named sides, auto_periodic_*, legacy lists and low/high. Distinct = "
    "distinct (grid class, num_axes, rank, per-side (kind, alias, normal, value form), format, "
    "route, dtype); non-trivial = at least one inhomogeneous or non-zero condition or a "
    "normal/periodic condition, on a field with generic random content."
)
ASSUMPTIONS = [
    "curvature conditions are only generated on axes with at least two cells (the second cell is part of the defining equation)",
    "Robin conditions use gamma >= 0 (or infinity) so that 2 + gamma*dx never vanishes",
    "*_expression conditions depend on boundary coordinates and t (not on the adjacent value); value_cell is exercised only with the index of the adjacent cell",
]
REQUIRED = {
    "faces_checked": 2000,
    "cases_interpreted": 400,
    "cases_numba_setter": 60,
    "cases_numpy_setter": 100,
    "aliases_seen": 18,
    "formats_seen": 6,
    "normal_conditions": 50,
    "time_dependent_conditions": 20,
}
SENT0 = 1.0e3


def plan(tier: str, seed: int) -> list[dict]:
    quick = tier == "quick"
    shards = []
    for _ in range(8 if quick else 32):
        shards.append({"kind": "bc", "mode": "nojit", "cases": 120 if quick else 500, "compiled": True, "timeout": 1500 if quick else 4000})
    for _ in range(8 if quick else 32):
        shards.append({"kind": "bc", "mode": "jit", "cases": 12 if quick else 40, "compiled": True, "timeout": 1500 if quick else 4000})
    shards.append({"kind": "errors", "mode": "nojit", "timeout": 600})
    return shards


def grid_info(gspec):
    return {
        "dim": gen.grid_dim(gspec), "shape": gen.grid_shape(gspec), "bounds": gen.grid_bounds(gspec),
        "periodic": gen.grid_periodic(gspec), "axes": stencils.axes_names(gspec),
    }


def make_field(rng, grid, rank, dtype):
    import pde

    cls = [pde.ScalarField, pde.VectorField, pde.Tensor2Field][rank]
    f = cls(grid, dtype=dtype)
    full = f._data_full
    vals = rng.uniform(-1, 1, size=full.shape)
    if dtype == "complex128":
        vals = vals + 1j * rng.uniform(-1, 1, size=full.shape)
    full[...] = vals.astype(dtype)
    # ghost cells, edges and corners: unique sentinels
    nd = grid.num_axes
    mask = np.ones(full.shape, dtype=bool)
    mask[(slice(None),) * (full.ndim - nd) + (slice(1, -1),) * nd] = False
    full[mask] = (SENT0 + np.arange(int(mask.sum()))).astype(dtype)
    return f


def run_bc_shard(spec, res: ShardResult, rng):
    from pde.backends import get_backend
    from pde.tools.config import config

    nojit = spec["mode"] == "nojit"
    accept_lists = bool(config["boundaries.accept_lists"])
    for case_no in range(spec["cases"]):
        sizes = (1, 2, 3, 4, 5)
        gspec = gen.random_grid_spec(rng, sizes=sizes, max_cells=125, tame=rng.random() < 0.7)
        grid = gen.make_grid(gspec)
        info = grid_info(gspec)
        rank = int(rng.choice([0, 0, 1, 2]))
        dtype = str(rng.choice(["float64", "float64", "complex128", "float32"]))
        structure = bcm.gen_structure(rng, info, rank)
        spec_data, fmt = bcm.render_spec(rng, structure, info["axes"], dict(grid.boundary_names), accept_lists)
        t = float(np.round(rng.uniform(-1, 2), 3))
        needs_t = any(c.get("vform") == "texpr" for ax in structure["axes"] if "sides" in ax for c in ax["sides"])
        args = {"t": t} if needs_t or rng.random() < 0.3 else None
        descr = [
            (ax["periodic"],) if "periodic" in ax else tuple((c["kind"], c["alias"], c["normal"], c["vform"], c.get("bform")) for c in ax["sides"])
            for ax in structure["axes"]
        ]
        case = {"grid": gspec, "rank": rank, "dtype": dtype, "format": fmt, "spec": spec_data, "t": t if args else None}
        eps = 1.2e-7 if dtype == "float32" else bcm.EPS
        routes = ["interpreted", "numpy_setter"]
        if spec.get("compiled"):
            routes.append("numba_setter")
        nontrivial = any("periodic" in ax or any(c["vform"] != "zero" or c["normal"] for c in ax["sides"]) for ax in structure["axes"])
        try:
            bcs = grid.get_boundary_conditions(spec_data, rank=rank)
        except Exception as exc:
            res.violation(f"specification rejected: {type(exc).__name__}: {str(exc)[:300]}", case, structure=descr)
            continue
        for route in routes:
            f = make_field(rng, grid, rank, dtype)
            before = f._data_full.copy()
            try:
                if route == "interpreted":
                    f.set_ghost_cells(spec_data, args=args)
                elif route == "numpy_setter":
                    setter = get_backend("numpy").make_ghost_cell_setter(bcs)
                    setter(f._data_full, args=args) if args is not None else setter(f._data_full)
                else:
                    from pde.backends.numba.utils import numba_dict  # documented way to pass args to compiled code

                    setter = get_backend("numba").make_ghost_cell_setter(bcs)
                    setter(f._data_full, args=numba_dict(t=args["t"])) if args is not None else setter(f._data_full)
            except Exception as exc:
                res.violation(f"{route}: raised {type(exc).__name__}: {str(exc)[:300]}", {**case, "route": route}, structure=descr)
                continue
            after = f._data_full
            problems = bcm.check_padded(structure, info, rank, before, after, t if args else 0.0, eps=eps)
            res.count({"interpreted": "cases_interpreted", "numpy_setter": "cases_numpy_setter", "numba_setter": "cases_numba_setter"}[route])
            if route == "numba_setter" and not nojit:
                res.count("cases_numba_setter_compiled")
            nfaces = sum(2 for _ in structure["axes"])
            res.count("faces_checked", nfaces)
            for p in problems[:2]:
                res.violation(f"{route}: {p}", {**case, "route": route}, structure=descr)
            res.case((gspec["cls"], len(info["shape"]), rank, descr, fmt, route, dtype, spec["mode"]), nontrivial=nontrivial)
        # boundary values of Dirichlet sides as reported by the field
        for axis, ax in enumerate(structure["axes"]):
            if "sides" not in ax:
                continue
            for upper in (False, True):
                cond = ax["sides"][int(upper)]
                res.seen("aliases_seen", cond["alias"])
                if cond["normal"]:
                    res.count("normal_conditions")
                if cond["vform"] == "texpr":
                    res.count("time_dependent_conditions")
                if cond["kind"] == "value" and not cond["normal"] and cond["vform"] in ("zero", "const") and dtype == "float64" and not needs_t:
                    f = make_field(rng, grid, rank, dtype)
                    try:
                        got = f.get_boundary_values(axis, upper, bc=spec_data)
                    except Exception as exc:
                        res.violation(f"get_boundary_values raised {type(exc).__name__}: {exc}", case)
                        continue
                    if not np.allclose(got, cond["v"], rtol=0, atol=1e-12 * (1 + abs(cond["v"]))):
                        res.violation("get_boundary_values differs from the imposed value", case, axis=axis, upper=upper, want=cond["v"], have=got)
                    res.count("boundary_values_checked")
        res.seen("formats_seen", fmt)
        if case_no < 2:
            res.sample({**case, "structure": descr})


def run_error_shard(spec, res: ShardResult, rng):
    """Inadmissible specifications must raise instead of producing arrays."""
    import pde

    g = pde.UnitGrid([3, 3], periodic=[True, False])
    f = pde.ScalarField(g, 1.0)
    bad_specs = [
        ("non-periodic condition on a periodic axis", {"x": "value", "y": "value"}),
        ("periodic condition on a non-periodic axis", {"x": "periodic", "y": "periodic"}),
        ("unknown condition name", {"x": "periodic", "y": "no_such_condition"}),
        ("missing side", {"x": "periodic", "y-": "value"}),
        ("per-face array of wrong length", {"x": "periodic", "y": {"value": [1.0, 2.0]}}),
    ]
    for label, s in bad_specs:
        try:
            f.set_ghost_cells(s)
        except Exception:
            res.count("inadmissible_specs_rejected")
        else:
            res.violation(f"inadmissible specification accepted: {label}", {"spec": s})
        res.case(("error", label))
    # curvature on a single-cell axis: the defining equation needs two cells
    g1 = pde.UnitGrid([1])
    f1 = pde.ScalarField(g1, 1.0)
    try:
        f1.set_ghost_cells({"x": {"curvature": 1}})
        res.count("observation_curvature_on_single_cell_axis_accepted")
    except Exception:
        res.count("observation_curvature_on_single_cell_axis_rejected")


def run_shard(spec: dict) -> ShardResult:
    res = ShardResult(spec)
    rng = np.random.default_rng([spec["seed"], 2, spec["index"]])
    if spec["kind"] == "bc":
        run_bc_shard(spec, res, rng)
    else:
        run_error_shard(spec, res, rng)
    return res
