"""C05 — discrete conservation: no-flux Laplacian and divergence integrate to zero.

Events: (a) ``sum(V * L f)`` for the discrete Laplacian with periodic / zero-flux conditions on
every grid class and for the divergence with vanishing normal boundary component on Cartesian
and (conservative) spherical grids, for generic random fields with strong boundary gradients;
(b) ``state.integral`` recorded by a tracker after *every* step of diffusion and
Cahn-Hilliard runs for every solver and backend, including deliberately large time steps.
Oracle: the sums vanish / the integral stays constant within a round-off budget built from
the magnitudes of all terms; cell volumes are cross-checked against the exact shell formulas
so that compensating errors in volume and stencil cannot hide.
"""

from __future__ import annotations

import numpy as np

from .. import gen
from ..models import stencils
from ..runner import ShardResult
from .c12 import exact_volumes

PROPERTY = "C05"
LEVEL = "exploration"
RULE = (
    "operator cases: (grid spec incl. holes, anisotropy, 1-cell axes; operator laplace/divergence; "
    "option conservative None/True/omitted; boundary assignment periodic or zero-flux per axis; "
    "backend; real/complex field); simulation cases: (equation Diffusion/Cahn-Hilliard, grid, "
    "solver, backend, dt stable or deliberately large, steps) with the integral observed after "
    "every step. Distinct = distinct (grid class, num_axes, hole, periodic pattern, operator, "
    "option, backend) resp. (equation, grid class, solver, backend, dt class); non-trivial = the "
    "field is non-constant (|L f| summed with |V| is at least 1e6 times the budget)."
)
ASSUMPTIONS = [
    "budget: 1024 ulp of sum(V * sum of magnitudes of all stencil terms) for operators; per step dt times that budget plus 64 ulp of sum(V*|u|) in simulations",
    "the non-conservative spherical stencils are run only to record that conservation is not claimed for them",
]
REQUIRED = {
    "operator_sums_checked": 250,
    "divergence_sums_checked": 60,
    "nine_point_sums_checked": 40,
    "nine_point_periodicity_seen": 4,
    "two_field_runs": 8,
    "simulation_steps_observed": 1500,
    "simulations": 60,
    "solvers_seen": 6,
    "grid_classes_seen": 5,
    "large_dt_runs": 5,
}
EPS = 2.220446049250313e-16
SOLVERS = ["euler", "runge-kutta", "implicit", "crank-nicolson", "adams-bashforth", "scipy"]


def plan(tier: str, seed: int) -> list[dict]:
    from ..models import curvi

    curvi.ensure_cache()
    quick = tier == "quick"
    shards = []
    for _ in range(6 if quick else 24):
        shards.append({"kind": "operators", "mode": "jit", "grids": 30 if quick else 80, "timeout": 1500 if quick else 4000})
    for _ in range(2 if quick else 8):
        shards.append({"kind": "operators", "mode": "nojit", "grids": 25 if quick else 80, "timeout": 1500 if quick else 4000})
    for _ in range(6 if quick else 24):
        shards.append({"kind": "simulations", "mode": "jit", "backend": "numpy", "cases": 14 if quick else 50, "timeout": 1500 if quick else 4000})
    for _ in range(4 if quick else 12):
        shards.append({"kind": "simulations", "mode": "jit", "backend": "numba", "cases": 3 if quick else 8, "timeout": 1800 if quick else 4000})
    return shards


def noflux_bc(gspec, rng, vector=False):
    """Periodic on periodic axes, zero flux elsewhere (several equivalent spellings)."""
    per = gen.grid_periodic(gspec)
    names = stencils.axes_names(gspec)
    if vector:
        local = [{"normal_value": 0}, {"type": "normal_dirichlet", "value": 0.0}, {"value": 0}]
    else:
        local = ["neumann", {"derivative": 0}, {"type": "derivative", "value": 0.0}, "derivative"]
    if not vector and rng.random() < 0.3:
        return "auto_periodic_neumann"
    spec = {}
    for name, p in zip(names, per):
        spec[name] = "periodic" if p else local[int(rng.integers(len(local)))]
    return spec


def steep_field(rng, shape, complex_=False):
    """Random values with strong gradients, in particular next to the boundaries."""
    f = rng.uniform(-1, 1, size=shape)
    for ax in range(len(shape)):
        ramp = np.linspace(-3, 3, shape[ax]) ** 3
        f = f + np.moveaxis(np.moveaxis(np.zeros(shape), ax, -1) + ramp * rng.uniform(0.5, 2), -1, ax)
    if complex_:
        f = f + 1j * rng.uniform(-1, 1, size=shape)
    return f


def run_operator_shard(spec, res: ShardResult, rng):
    import pde

    for gi in range(spec["grids"]):
        gspec = gen.random_grid_spec(rng, sizes=(1, 2, 3, 5, 8), max_cells=300)
        grid = gen.make_grid(gspec)
        cls = gspec["cls"]
        shape = gen.grid_shape(gspec)
        res.seen("grid_classes_seen", cls)
        hole = cls not in stencils.CARTESIAN and gen.grid_bounds(gspec)[0][0] > 0
        V = np.asarray(grid.cell_volumes, dtype=float)
        V = np.broadcast_to(V, shape)
        Vx = exact_volumes(gspec)
        bounds = gen.grid_bounds(gspec)
        rel = 64 * EPS * (1 + max(max(abs(a), abs(b)) / ((b - a) / n) for (a, b), n in zip(bounds, shape)))
        if np.abs(V - Vx).max() > rel * np.abs(Vx).max():
            res.violation("cell volumes differ from the exact shell volumes", {"grid": gspec})
            continue
        # ---- Laplacian -------------------------------------------------------------------
        variants = [{}]
        if cls == "SphericalSymGrid":
            variants = [{}, {"conservative": None}, {"conservative": True}, {"conservative": False}]
        if cls in stencils.CARTESIAN and len(shape) == 2:
            # optional 9-point stencil of the 2d Cartesian Laplacian (virtual corner points)
            variants = [{}, {"corner_weight": 1 / 3}, {"corner_weight": 0.5}, {"corner_weight": float(np.round(rng.uniform(0.05, 0.95), 2))}]
        for opts in variants:
            complex_ = rng.random() < 0.2
            data = steep_field(rng, shape, complex_)
            f = pde.ScalarField(grid, data, dtype=complex if complex_ else float)
            bc = noflux_bc(gspec, rng)
            case = {"grid": gspec, "operator": "laplace", "options": opts, "bc": bc, "complex": complex_, "mode": spec["mode"]}
            try:
                lap = f.laplace(bc, **opts)
                padded = f._data_full.copy()
            except Exception as exc:
                res.violation(f"laplace raised {type(exc).__name__}: {str(exc)[:200]}", case)
                continue
            total = complex((V * lap.data).sum())
            w9 = opts.get("corner_weight", 0.0)
            mag = stencils.apply_model(gspec, "laplace", {k: v for k, v in opts.items() if k != "corner_weight"}, padded, abs_mode=True)
            if w9:
                # |9-point stencil| <= 2 (1 + w) |5-point stencil| applied to the largest neighbour
                res.count("nine_point_sums_checked")
                res.seen("nine_point_periodicity_seen", tuple(gen.grid_periodic(gspec)))
                mag = 2 * (1 + w9) * np.full(shape, float(np.abs(data).max()) * sum(4 / ((b - a) / n) ** 2 for (a, b), n in zip(bounds, shape)))
            budget = 1024 * EPS * float((V * mag).sum()) * max(1, len(shape)) + 1e-300
            claimed = stencils.effective_conservative("laplace", opts) if cls == "SphericalSymGrid" else True
            if not claimed:
                res.count("nonconservative_variants_recorded")
                res.stat_max("nonconservative_defect_over_budget", abs(total) / budget)
                continue
            res.count("operator_sums_checked")
            res.stat_max("laplace_defect_over_budget", abs(total) / budget)
            if abs(total) > budget:
                res.violation(
                    f"volume-weighted sum of the Laplacian is {abs(total):.3g}, budget {budget:.3g}", case,
                    sum_abs=float((V * np.abs(lap.data)).sum()),
                )
            if abs(lap.integral - total) > 64 * EPS * float((V * np.abs(lap.data)).sum()) + 1e-300:
                res.violation("field.integral differs from sum(cell_volumes * data)", case)
            nontrivial = float((V * np.abs(lap.data)).sum()) > 1e6 * budget
            res.case((cls, len(shape), hole, tuple(gen.grid_periodic(gspec)), "laplace", sorted(opts.items()), spec["mode"]), nontrivial=nontrivial)
            if res.counters["operator_sums_checked"] <= 2:
                res.sample({**case, "sum_V_lap": abs(total), "sum_V_abs_lap": float((V * np.abs(lap.data)).sum()), "budget": budget})
        # ---- divergence -------------------------------------------------------------------
        if cls in stencils.CARTESIAN or cls == "SphericalSymGrid":
            variants = [{}] if cls in stencils.CARTESIAN else [{}, {"conservative": True}, {"conservative": None}]
            for opts in variants:
                dim = grid.dim
                data = np.stack([steep_field(rng, shape) for _ in range(dim)])
                data = stencils.admissible_project(gspec, 1, data)
                v = pde.VectorField(grid, data)
                bc = noflux_bc(gspec, rng, vector=True)
                case = {"grid": gspec, "operator": "divergence", "options": opts, "bc": bc, "mode": spec["mode"]}
                try:
                    div = v.divergence(bc, **opts)
                    padded = v._data_full.copy()
                except Exception as exc:
                    res.violation(f"divergence raised {type(exc).__name__}: {str(exc)[:200]}", case)
                    continue
                # un-set ghost cells of tangential components must not matter: zero them for the model
                total = float((V * div.data).sum())
                padded_model = np.nan_to_num(padded, nan=0.0, posinf=0.0, neginf=0.0)
                mag = stencils.apply_model(gspec, "divergence", opts, padded_model, abs_mode=True)
                budget = 1024 * EPS * float((V * mag).sum()) * max(1, len(shape)) + 1e-300
                res.count("divergence_sums_checked")
                res.stat_max("divergence_defect_over_budget", abs(total) / budget)
                if abs(total) > budget:
                    res.violation(f"volume-weighted sum of the divergence is {abs(total):.3g}, budget {budget:.3g}", case)
                res.case((cls, len(shape), hole, tuple(gen.grid_periodic(gspec)), "divergence", sorted(opts.items()), spec["mode"]))


def run_simulation_shard(spec, res: ShardResult, rng):
    import pde

    backend = spec["backend"]
    for case_no in range(spec["cases"]):
        eq_kind = str(rng.choice(["diffusion", "cahn-hilliard", "two-field"], p=[0.42, 0.42, 0.16]))
        gspec = gen.random_grid_spec(rng, sizes=(2, 3, 5, 8), max_cells=64, tame=True)
        grid = gen.make_grid(gspec)
        cls = gspec["cls"]
        shape = gen.grid_shape(gspec)
        res.seen("grid_classes_seen", cls)
        solver = SOLVERS[(case_no + spec["index"]) % len(SOLVERS)]
        res.seen("solvers_seen", solver)
        dxmin = float(np.min(grid.discretization))
        lap_scale = float(sum(4 / d**2 for d in grid.discretization))
        large = rng.random() < 0.4 and solver in ("euler", "runge-kutta", "adams-bashforth")
        if eq_kind == "diffusion":
            D = float(np.round(rng.uniform(0.2, 2), 2))
            dt_stable = 0.2 / (D * lap_scale)
            bc = noflux_bc(gspec, rng)
            eq = pde.DiffusionPDE(diffusivity=D, bc=bc)
        elif eq_kind == "two-field":
            # expression PDE with two fields using the same operator name: field `a` is absorbed at
            # the walls (operator-specific Dirichlet condition), field `b` diffuses with zero flux
            # and is the conserved one; which of the two comes first is random
            D = float(np.round(rng.uniform(0.2, 2), 2))
            dt_stable = 0.2 / (max(D, 1.0) * lap_scale + 1)
            bc = noflux_bc(gspec, rng)
            names = stencils.axes_names(gspec)
            absorbing = {n: ("periodic" if p else {"value": 0}) for n, p in zip(names, gen.grid_periodic(gspec))}
            rhs = {"a": "laplace(a) - a", "b": f"{D} * laplace(b)"}
            if rng.random() < 0.5:
                rhs = dict(reversed(list(rhs.items())))
            eq = pde.PDE(rhs, bc=bc, bc_ops={"a:laplace": absorbing})
            conserved_index = list(rhs).index("b")
        else:
            dt_stable = 0.05 / (lap_scale * (1 + lap_scale))
            bc = noflux_bc(gspec, rng)
            eq = pde.CahnHilliardPDE(bc_c=bc, bc_mu=noflux_bc(gspec, rng))
        dt = dt_stable * (6.0 if large else float(rng.choice([1.0, 0.3, 0.05])))
        steps = int(rng.choice([3, 6]) if large else rng.choice([5, 20, 60] if backend == "numpy" else [5, 20]))
        if large:
            res.count("large_dt_runs")
        state = pde.ScalarField(grid, steep_field(rng, shape) * (0.3 if eq_kind == "cahn-hilliard" else 1.0))
        if eq_kind == "two-field":
            state = pde.FieldCollection([pde.ScalarField(grid, steep_field(rng, shape)), state])
            res.count("two_field_runs")
        V = np.broadcast_to(np.asarray(grid.cell_volumes, dtype=float), shape)
        record = []

        def observe(s, t):
            if eq_kind == "two-field":
                s = s[conserved_index]
            record.append((float(t), float(s.integral), float((V * np.abs(s.data)).sum()), float(np.abs(s.data).max())))

        tracker = pde.trackers.CallbackTracker(observe, interrupts=dt)
        kwargs = {}
        if solver in ("implicit", "crank-nicolson"):
            kwargs = {"maxiter": 1000, "maxerror": 1e-6}
        case = {"equation": eq_kind, "grid": gspec, "solver": solver, "backend": backend, "dt": dt, "steps": steps, "large_dt": bool(large), "bc": bc}
        try:
            with np.errstate(all="ignore"):
                eq.solve(state, t_range=steps * dt, dt=dt, solver=solver, backend=backend, tracker=[tracker], **kwargs)
        except Exception as exc:
            name = type(exc).__name__
            if name == "ConvergenceError" or "converge" in str(exc):
                res.count("implicit_not_converged_skipped")
                continue
            res.violation(f"solve raised {name}: {str(exc)[:200]}", case)
            continue
        if len(record) < 2:
            res.violation("tracker with interrupts=dt observed fewer than two states", case)
            continue
        res.count("simulations")
        I0 = record[0][1]
        bad = None
        for n, (t, I, absint, umax) in enumerate(record):
            if not np.isfinite(I) or not np.isfinite(umax) or umax > 1e60:
                res.count("overflowing_runs_truncated")
                break
            res.count("simulation_steps_observed")
            rate_scale = (1.0 if eq_kind != "cahn-hilliard" else (1 + umax**2) * (1 + lap_scale)) * lap_scale * (D if eq_kind != "cahn-hilliard" else 1.0)
            per_step = 64 * EPS * absint + dt * 1024 * EPS * absint * rate_scale
            running = per_step if n == 0 else max(running, per_step)
            budget = (n + 2) * running * (4 if solver == "scipy" else 1) * 8
            res.stat_max("integral_drift_over_budget", abs(I - I0) / budget)
            if abs(I - I0) > budget and bad is None:
                bad = (n, t, I, budget)
        if bad:
            n, t, I, budget = bad
            res.violation(
                f"integral drifted by {abs(I - I0):.3g} after {n} steps (budget {budget:.3g})", case,
                integral_start=I0, integral_now=I, relative=abs(I - I0) / (record[0][2] + 1e-300),
            )
        res.case((eq_kind, cls, len(shape), solver, backend, "large" if large else "stable"))
        if case_no < 1:
            res.sample({**case, "integrals": [r[1] for r in record[:6]]})


def run_shard(spec: dict) -> ShardResult:
    res = ShardResult(spec)
    rng = np.random.default_rng([spec["seed"], 5, spec["index"]])
    if spec["kind"] == "operators":
        run_operator_shard(spec, res, rng)
    else:
        run_simulation_shard(spec, res, rng)
    return res
