"""C01 — differential operators are second-order consistent discretisations.

Two monitors on the raw kernels returned by ``grid.make_operator_no_bc``:

*stencil*  the observed linear map (unit impulses on every cell of the padded array incl.
           ghost faces/edges/corners, plus generic real and complex random fields) is
           compared with the independent stencil model entry by entry; every call runs on
           red-zoned buffers; one slice runs with NUMBA_BOUNDSCHECK=1 and one interpreted
           (NUMBA_DISABLE_JIT=1).
*refine*   the kernels are applied to samples of closed-form smooth fields on N, 2N, 4N
           cells (ghost cells from the analytic continuation) and the empirical order of
           the error against the continuum oracle is judged.
"""

from __future__ import annotations

import inspect
import itertools

import numpy as np

from .. import gen
from ..models import continuum, curvi, stencils
from ..monitors import redzone
from ..runner import ShardResult

PROPERTY = "C01"
LEVEL = "exploration"
RULE = (
    "stencil cases: (grid spec, backend, operator, option) with the kernel applied to all unit "
    "impulses of the padded array (subsampled above 400 cells), 2 real + 1 complex random "
    "fields; distinct = distinct (grid class, num_axes, hole, cells-per-axis pattern, "
    "anisotropic, backend, operator, option, mode); non-trivial = the map has at least one "
    "non-zero entry and the grid is not the unit-spaced default (or operator carries a metric "
    "term). refine cases: (grid class, hole, operator, option, random smooth field) on three "
    "resolutions; distinct by (grid class, hole, operator, option, field coefficients). "
    "Spherical vector/tensor inputs are restricted to the fields the symmetry admits "
    "(documented pre-conditions)."
)
ASSUMPTIONS = [
    "the stencil model (vlib/models/stencils.py, curvi.py) is the documented discretisation: textbook formulas with coefficients at cell centres and central/one-sided differences, finite-volume forms for the conservative spherical variants",
    "9-point Laplacian (corner_weight != 0) and spectral operators are outside the statement (default 5-point Laplacian)",
    "orders are empirical: estimated from N=32->64 (16->32 for 3d grids), thresholds p>=1.6 (second order) and p>=0.7 (first order)",
    "red zones detect only accesses adjacent to the arrays; far reads are caught by the impulse extraction because every input cell's weight is observed",
]
REQUIRED = {
    "maps_compared": 150,
    "maps_compared_jit": 100,
    "impulses_applied": 5000,
    "redzone_calls": 5000,
    "refinement_triples": 25,
    "orders_estimated": 20,
    "operators_seen": 15,
    "grid_classes_seen": 5,
}
EPS = 2.220446049250313e-16
SYSTEM_OF = {"PolarSymGrid": "polar", "SphericalSymGrid": "spherical", "CylindricalSymGrid": "cylindrical"}


def plan(tier: str, seed: int) -> list[dict]:
    curvi.ensure_cache()
    quick = tier == "quick"
    shards = []
    for i in range(10 if quick else 40):
        shards.append({"kind": "stencil", "mode": "jit", "grids": 5 if quick else 12, "timeout": 1500 if quick else 4000})
    for i in range(3 if quick else 12):
        shards.append({"kind": "stencil", "mode": "nojit", "grids": 2 if quick else 6, "max_cells": 40, "timeout": 1500 if quick else 4000})
    for i in range(1 if quick else 4):
        shards.append({"kind": "stencil", "mode": "boundscheck", "grids": 4 if quick else 10, "timeout": 1500 if quick else 4000})
    for i in range(6 if quick else 24):
        shards.append({"kind": "refine", "mode": "jit", "cases": 10 if quick else 30, "timeout": 1500 if quick else 4000, "known_finding_probe": i == 0})
    return shards


# --------------------------------------------------------------------------------------


def operator_options(be, grid, name):
    """All documented option combinations of an operator factory."""
    info = be.get_operator_info(grid, name)
    params = inspect.signature(info.factory).parameters
    choices = []
    if "method" in params and not name.startswith("d_d") and not name.startswith("d2_d"):
        choices.append([("method", m) for m in ("central", "forward", "backward")])
    if "conservative" in params:
        choices.append([("conservative", c) for c in ("omitted", None, True, False)])
    if "central" in params:
        choices.append([("central", c) for c in (True, False)])
    out = []
    for combo in itertools.product(*choices) if choices else [()]:
        out.append({k: v for k, v in combo if v != "omitted"})
    return info, out


def budget(gspec, name, opts, data, floor=0.0):
    """Round-off budget: 256 ulp of the sum of magnitudes of all terms of the stencil."""
    mag = stencils.apply_model(gspec, name, opts, data, abs_mode=True)
    if name == "gradient_squared":
        mag = mag * 4
    return 256 * EPS * mag + floor


def run_stencil_shard(spec, res: ShardResult, rng):
    from pde.backends import get_backend

    nojit = spec["mode"] == "nojit"
    for gi in range(spec["grids"]):
        gspec = gen.random_grid_spec(rng, sizes=(1, 2, 3, 5, 8), max_cells=spec.get("max_cells", 200))
        grid = gen.make_grid(gspec)
        cls = gspec["cls"]
        shape = gen.grid_shape(gspec)
        hole = cls in SYSTEM_OF and gen.grid_bounds(gspec)[0][0] > 0
        aniso = len(set(np.round(grid.discretization, 12))) > 1
        res.seen("grid_classes_seen", cls)
        backends = ["numba"] + (["scipy"] if cls in stencils.CARTESIAN and not nojit else [])
        for bname in backends:
            be = get_backend(bname)
            names = sorted(be.get_registered_operators(grid))
            if nojit and len(names) > 6:
                names = list(rng.choice(names, size=6, replace=False))
            for name in names:
                if name == "poisson_solver":
                    continue
                try:
                    info, optlist = operator_options(be, grid, name)
                except Exception as exc:
                    res.violation(f"get_operator_info raised {type(exc).__name__}: {exc}", {"grid": gspec, "operator": name})
                    continue
                for opts in optlist:
                    case = {"grid": gspec, "backend": bname, "operator": name, "options": opts, "mode": spec["mode"]}
                    check_map(grid, gspec, be, bname, info, name, opts, case, res, rng, hole, aniso)


def check_map(grid, gspec, be, bname, info, name, opts, case, res, rng, hole, aniso):
    shape = gen.grid_shape(gspec)
    dim = grid.dim
    shape_in = (dim,) * info.rank_in + tuple(s + 2 for s in shape)
    shape_out = (dim,) * info.rank_out + tuple(shape)
    try:
        stencils.apply_model(gspec, name, opts, np.zeros(shape_in))
    except stencils.Unsupported as exc:
        res.count("not_modelled")
        res.seen("not_modelled_reasons", f"{gspec['cls']}/{name}: {exc}")
        return
    try:
        kernel = grid.make_operator_no_bc(name, backend=bname, **opts)
    except RuntimeError as exc:
        if bname == "scipy" and "uniform" in str(exc):
            res.count("scipy_nonuniform_refused")  # documented: route unavailable
            return
        res.violation(f"make_operator_no_bc raised {type(exc).__name__}: {exc}", case)
        return
    except Exception as exc:
        res.violation(f"make_operator_no_bc raised {type(exc).__name__}: {exc}", case)
        return
    res.seen("operators_seen", name)
    linear = name != "gradient_squared"
    nonzero = False

    def one(data, label, complex_=False):
        nonlocal nonzero
        data = stencils.admissible_project(gspec, info.rank_in, data, name, opts)
        want = stencils.apply_model(gspec, name, opts, data)
        tol = budget(gspec, name, opts, data)
        try:
            have, problems = redzone.call_kernel(kernel, data, shape_out, out_dtype=complex if complex_ else float)
        except (AssertionError, IndexError, ValueError, TypeError, ZeroDivisionError) as exc:
            res.violation(f"kernel raised {type(exc).__name__}: {str(exc)[:200]}", {**case, "input": label})
            return False
        res.count("redzone_calls")
        for p in problems:
            res.violation(f"red zone: {p}", {**case, "input": label})
            return False
        err = np.abs(have - want)
        bad = err > tol
        if bad.any():
            where = np.unravel_index(int(np.argmax(err - tol)), err.shape)
            res.violation(
                "kernel output differs from the documented stencil",
                {**case, "input": label},
                output_index=list(map(int, where)), have=have[where], want=want[where],
                tolerance=float(tol[where]),
            )
            return False
        res.stat_max("max_err_over_budget", float((err / np.maximum(tol, 1e-300)).max()))
        if np.abs(want).max() > 0:
            nonzero = True
        return True

    ok = True
    for k in range(2):
        data = rng.uniform(-1, 1, size=shape_in)
        ok = ok and one(data, f"random real #{k}")
    if ok:
        data = rng.uniform(-1, 1, size=shape_in) + 1j * rng.uniform(-1, 1, size=shape_in)
        ok = one(data, "random complex", complex_=True)
    if ok and linear:
        ncell = int(np.prod(shape_in))
        cells = np.arange(ncell)
        if ncell > 400:
            cells = rng.choice(cells, size=400, replace=False)
        if case["mode"] == "nojit" and len(cells) > 60:
            cells = rng.choice(cells, size=60, replace=False)
        for flat in cells:
            data = np.zeros(shape_in)
            data.flat[int(flat)] = 1.0
            idx = np.unravel_index(int(flat), shape_in)
            if not np.array_equal(stencils.admissible_project(gspec, info.rank_in, data, name, opts), data):
                # impulse outside the admissible subspace: use the projected pattern
                data = stencils.admissible_project(gspec, info.rank_in, data, name, opts) * 2
            res.count("impulses_applied")
            if not one(data, {"impulse_at": list(map(int, idx))}):
                ok = False
                break
    res.count("maps_compared")
    if case["mode"] != "nojit":
        res.count("maps_compared_jit")
    trivial_grid = gspec["cls"] == "UnitGrid"
    res.case(
        (gspec["cls"], len(shape), hole, tuple(min(s, 3) for s in shape), aniso, bname, name, sorted(opts.items()), case["mode"]),
        nontrivial=nonzero and (not trivial_grid or name not in ("laplace",)),
    )
    if res.counters["maps_compared"] <= 2:
        res.sample({**case, "padded_shape": list(shape_in), "impulses": "all" if int(np.prod(shape_in)) <= 400 else 400})


# --------------------------------------------------------------------------------------
# refinement monitor


def refine_grid_spec(rng, cls, hole, N):
    if cls == "CartesianGrid":
        return None
    rad = [1.0, 2.5] if hole else 2.0
    if cls == "CylindricalSymGrid":
        return {"cls": cls, "radius": rad, "bounds_z": [-0.5, 1.0], "shape": [N, N], "periodic_z": False}
    return {"cls": cls, "radius": rad, "shape": N}


def sample_padded(gspec, fn, rank):
    """Evaluate the closed-form field on the padded array (ghost cells by continuation)."""
    bounds, shape, dxs, centres = stencils.geometry(gspec)
    full = [a + (np.arange(-1, n + 1) + 0.5) * dx for (a, _), n, dx in zip(bounds, shape, dxs)]
    if gspec["cls"] in stencils.CARTESIAN:
        mesh = np.meshgrid(*full, indexing="ij")
        return fn(*mesh)
    if gspec["cls"] == "CylindricalSymGrid":
        R, Z = np.meshgrid(full[0], full[1], indexing="ij")
        return fn(R, Z)
    return fn(full[0], np.zeros_like(full[0]))


def sample_valid(gspec, fn):
    bounds, shape, dxs, centres = stencils.geometry(gspec)
    if gspec["cls"] in stencils.CARTESIAN:
        mesh = np.meshgrid(*centres, indexing="ij")
        return fn(*mesh), mesh
    if gspec["cls"] == "CylindricalSymGrid":
        R, Z = np.meshgrid(centres[0], centres[1], indexing="ij")
        return fn(R, Z), [R, Z]
    return fn(centres[0], np.zeros_like(centres[0])), [centres[0]]


def run_refine_shard(spec, res: ShardResult, rng):
    from pde.backends import get_backend

    be = get_backend("numba")
    for case_no in range(spec["cases"]):
        cls = str(rng.choice(["CartesianGrid", "PolarSymGrid", "SphericalSymGrid", "CylindricalSymGrid"], p=[0.25, 0.2, 0.3, 0.25]))
        hole = bool(rng.random() < 0.4) and cls != "CartesianGrid"
        probe_f12 = case_no == 0 and spec.get("known_finding_probe")
        if probe_f12:  # fixed witness of known finding F12 (reported on every run)
            cls, hole = "SphericalSymGrid", False
        res.seen("grid_classes_seen", cls)
        if cls == "CartesianGrid":
            dim = int(rng.choice([1, 2, 3], p=[0.4, 0.4, 0.2]))
            Ns = (16, 32) if dim == 3 else (32, 64)
            ext = [[-0.3, 0.9], [0.1, 1.7], [-1.0, 0.2]][:dim]
            per_axis = [1.0, 0.75, 1.25][:dim]  # anisotropic spacing
            mk = lambda N: {"cls": cls, "bounds": ext, "shape": [max(4, int(N * f)) for f in per_axis], "periodic": [False] * dim}  # noqa: E731
        else:
            dim = None
            Ns = (32, 64)
            mk = lambda N: refine_grid_spec(rng, cls, hole, N)  # noqa: E731
        g0 = gen.make_grid(mk(Ns[0]))
        names = [n for n in sorted(be.get_registered_operators(g0)) if n in stencils.RANKS]
        name = str(rng.choice(names))
        info, optlist = operator_options(be, g0, name)
        opts = optlist[int(rng.integers(len(optlist)))]
        if probe_f12:
            name, opts = "tensor_double_divergence", {}
            info, _ = operator_options(be, g0, name)
        try:
            if cls == "CartesianGrid":
                fin, fout, descr = continuum.cartesian_case(rng, dim, name)
            else:
                fin, fout, descr = continuum.curvilinear_case(rng, SYSTEM_OF[cls], name, extent_r=2.0, extent_z=1.5)
        except Exception as exc:  # harness failure must not look like a verdict
            res.notes.append(f"continuum oracle failed for {cls}/{name}: {exc}")
            res.count("oracle_failures")
            continue
        errs_all, errs_far, hs = [], [], []
        case = {"grid_class": cls, "hole": hole, "operator": name, "options": opts, "field": descr, "resolutions": list(Ns)}
        failed = False
        for N in Ns:
            gspec = mk(N)
            grid = gen.make_grid(gspec)
            data = sample_padded(gspec, fin, info.rank_in)
            exact, mesh = sample_valid(gspec, fout)
            shape_out = (grid.dim,) * info.rank_out + tuple(grid.shape)
            try:
                kernel = grid.make_operator_no_bc(name, backend="numba", **opts)
                have, problems = redzone.call_kernel(kernel, data, shape_out)
            except Exception as exc:
                res.violation(f"kernel raised {type(exc).__name__}: {str(exc)[:200]}", {**case, "N": N})
                failed = True
                break
            res.count("redzone_calls")
            for p in problems:
                res.violation(f"red zone: {p}", {**case, "N": N})
            err = np.abs(have - exact)
            errs_all.append(float(err.max()))
            if cls == "CartesianGrid":
                errs_far.append(float(err.max()))
            else:
                r = mesh[0]
                r0 = 0.25 * gen.grid_bounds(gspec)[0][1]
                mask = np.broadcast_to(r >= r0, err.shape[-r.ndim:]) if r.ndim else None
                errs_far.append(float(err[..., mask].max()))
            hs.append(float(np.max(grid.discretization)))
            scale = float(np.abs(exact).max()) + 1.0
        if failed:
            continue
        res.count("refinement_triples")
        noise = 1e4 * EPS * scale / min(hs) ** 2
        one_sided = opts.get("method", "central") != "central"
        need = 0.7 if one_sided else 1.6
        verdicts = {}
        for label, errs in (("all cells", errs_all), ("r >= r0", errs_far)):
            if errs[0] < noise:
                verdicts[label] = ("exact", None)
                res.count("exact_to_roundoff")
                continue
            p = float(np.log(errs[0] / max(errs[1], 1e-300)) / np.log(hs[0] / hs[1]))
            verdicts[label] = ("order", p)
            res.count("orders_estimated")
            res.stat_max("min_order_seen_neg", -p)
        res.seen("operators_seen", name)
        res.case((cls, hole, name, sorted(opts.items()), sorted(descr.items())))
        if case_no < 2:
            res.sample({**case, "errors_all_cells": errs_all, "errors_r_ge_r0": errs_far, "verdicts": verdicts})
        # judge
        p_all = verdicts["all cells"][1]
        p_far = verdicts["r >= r0"][1]
        cyl_vlap = cls == "CylindricalSymGrid" and name == "vector_laplace" and not hole
        if p_far is not None and p_far < need:
            res.violation(
                f"order {p_far:.2f} < {need} at fixed distance from r=0",
                case, errors=errs_far, spacings=hs,
            )
            continue
        if p_all is not None and not one_sided:  # the uniform rate is only stated for central variants
            need_all = 0.7 if cyl_vlap else need
            if p_all < need_all:
                eff_cons = stencils.effective_conservative(name, opts)
                mech = None
                if cls == "SphericalSymGrid" and not hole and name in ("tensor_divergence", "tensor_double_divergence") and eff_cons:
                    mech = "spherical-conservative-tensor-divergence-origin-order"
                res.violation(
                    f"order {p_all:.2f} < {need_all} over all cells (order at fixed distance: {p_far})",
                    case, mechanism=mech, errors=errs_all, spacings=hs,
                )


def run_shard(spec: dict) -> ShardResult:
    res = ShardResult(spec)
    rng = np.random.default_rng([spec["seed"], 1, spec["index"]])
    if spec["kind"] == "stencil":
        run_stencil_shard(spec, res, rng)
    else:
        run_refine_shard(spec, res, rng)
    return res
