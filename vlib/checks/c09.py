"""C09 — interrupt schedules are strictly increasing and stay on their lattice.

Events: the answers of ``initialize(t0)`` / ``next(t)`` of the four deterministic interrupt
classes under generated non-decreasing query sequences.  Oracle: exact-rational models of
the defining sets (``fractions.Fraction`` of the float inputs) with round-off budgets that
grow with the number of floating-point operations performed so far.
"""

from __future__ import annotations

import math
from fractions import Fraction as Fr

import numpy as np

from ..runner import ShardResult

PROPERTY = "C09"
LEVEL = "exploration"
RULE = (
    "A case is one (interrupt class, parameters, query sequence of 5-40 non-decreasing "
    "times). Queries are drawn from the kinds on/ulp_before/ulp_after/inside/far/repeat/"
    "before/lattice relative to the previous answer. Distinct = distinct (class, "
    "construction route, sequence of query kinds); non-trivial = the sequence contains at "
    "least one boundary query (on, ±1 ulp, exact lattice point) or one catch-up/skip. "
    "Parameters are restricted to the well-conditioned regime where the round-off budget "
    "is below 1% of the smallest gap (ill-conditioned draws are counted, not judged)."
)
ASSUMPTIONS = [
    "RealtimeInterrupts is wall-clock driven and excluded by the statement (deterministic types only)",
    "geometric interrupts: scale > 0, factor > 1; logarithmic: factor >= 1; fixed: strictly increasing finite lists",
    "queries are finite floats; gaps are at least 1e6 ulp of the largest time involved",
]
REQUIRED = {
    "answers_checked": 2000,
    "catchups_seen": 50,
    "exhausted_seen": 20,
    "boundary_queries": 200,
    "copies_checked": 20,
}
EPS = 2.220446049250313e-16
KINDS = ["on", "ulp_before", "ulp_after", "inside", "far", "repeat", "before", "lattice", "vfar"]


def plan(tier: str, seed: int) -> list[dict]:
    n_shards = 16 if tier == "quick" else 64
    n_cases = 4000 if tier == "quick" else 25000
    return [
        {"kind": "schedules", "mode": "jit", "cases": n_cases, "timeout": 900 if tier == "quick" else 3000}
        for _ in range(n_shards)
    ]


# --------------------------------------------------------------------------------------
# generators


def _nice(rng, lo=-3, hi=3):
    """A float with a random number of significant bits (decimal-looking or binary)."""
    kind = rng.integers(4)
    mag = 10.0 ** rng.uniform(lo, hi)
    if kind == 0:
        return float(f"{mag:.2g}")
    if kind == 1:
        return float(2.0 ** round(math.log2(mag)))
    if kind == 2:
        return float(rng.choice([0.1, 0.2, 0.25, 0.3, 1 / 3, 0.5, 0.7, 1.0, 1.5, 2.0, 2.5, 10.0]))
    return float(mag)


def gen_schedule(rng) -> dict:
    cls = str(rng.choice(["constant", "fixed", "logarithmic", "geometric"]))
    t0 = float(rng.choice([0.0, 0.0, 1.0, -1.0, _nice(rng), -_nice(rng), 1e3]))
    sched: dict = {"cls": cls, "t0": t0, "route": "class"}
    if cls == "constant":
        sched["dt"] = _nice(rng, -2, 2)
        sched["t_start"] = None if rng.random() < 0.5 else float(t0 + rng.choice([-1, 1]) * _nice(rng, -1, 1))
        if sched["t_start"] is None and rng.random() < 0.3:
            sched["route"] = "parse_number"
    elif cls == "logarithmic":
        sched["dt"] = _nice(rng, -2, 1)
        sched["factor"] = float(rng.choice([1.0, 1.1, 1.5, 2.0, 3.0, 1 + _nice(rng, -2, 0)]))
        sched["t_start"] = None if rng.random() < 0.5 else float(t0 + rng.choice([-1, 1]) * _nice(rng, -1, 1))
    elif cls == "geometric":
        sched["scale"] = _nice(rng, -2, 1)
        sched["factor"] = float(rng.choice([1.1, 1.5, 2.0, 3.0, 10.0, 1 + _nice(rng, -1, 1)]))
        sched["t0"] = float(rng.choice([0.0, 0.0, _nice(rng, -2, 1)]))
        if rng.random() < 0.3:
            sched["route"] = "parse_string"
            sched["scale"] = float(f"{sched['scale']:.3g}")
            sched["factor"] = float(f"{sched['factor']:.3g}")
            if sched["factor"] <= 1:
                sched["factor"] = 1.5
    else:
        n = int(rng.choice([0, 1, 2, 3, 5, 8, 13]))
        start = t0 + float(rng.choice([-2.0, 0.0, 0.5])) * _nice(rng, -1, 1)
        gaps = np.array([_nice(rng, -2, 1) for _ in range(n)])
        pts = start + np.cumsum(gaps) if n else np.array([])
        sched["points"] = [float(p) for p in pts]
        sched["route"] = str(rng.choice(["class", "parse_list", "parse_array"]))
    return sched


def build(sched: dict):
    from pde.trackers import interrupts as I

    cls, route = sched["cls"], sched["route"]
    if cls == "constant":
        if route == "parse_number":
            return I.parse_interrupt(sched["dt"])
        return I.ConstantInterrupts(sched["dt"], t_start=sched["t_start"])
    if cls == "logarithmic":
        return I.LogarithmicInterrupts(sched["dt"], sched["factor"], t_start=sched["t_start"])
    if cls == "geometric":
        if route == "parse_string":
            return I.parse_interrupt(f"geometric({sched['scale']!r}, {sched['factor']!r})")
        return I.GeometricInterrupts(sched["scale"], sched["factor"])
    if route == "parse_list":
        return I.parse_interrupt(list(sched["points"]))
    if route == "parse_array":
        return I.parse_interrupt(np.array(sched["points"], dtype=float))
    return I.FixedInterrupts(sched["points"])


def typical_gap(sched: dict, prev: float) -> float:
    if sched["cls"] == "constant":
        return sched["dt"]
    if sched["cls"] == "logarithmic":
        return sched["dt"]
    if sched["cls"] == "geometric":
        return max(abs(prev) * (sched["factor"] - 1), sched["scale"] * 0.1)
    pts = sched["points"]
    return float(np.diff(pts).mean()) if len(pts) > 1 else 1.0


def next_query(rng, kind: str, sched: dict, q_prev: float, a_prev: float, a0: float, step: int) -> float:
    """Produce the next query (>= previous query) of the requested kind."""
    gap = typical_gap(sched, a_prev if math.isfinite(a_prev) else q_prev)
    base = a_prev if math.isfinite(a_prev) else q_prev + gap
    if kind == "on":
        t = base
    elif kind == "ulp_before":
        t = math.nextafter(base, -math.inf)
    elif kind == "ulp_after":
        t = math.nextafter(base, math.inf)
    elif kind == "inside":
        t = base + rng.uniform(0, 1) * gap
    elif kind == "far":
        t = base + rng.uniform(1, 30) * gap
    elif kind == "vfar":
        t = base + rng.uniform(100, 3000) * gap
    elif kind == "repeat":
        t = q_prev
    elif kind == "before":
        t = q_prev + rng.uniform(0, 1) * max(base - q_prev, 0.0)
    else:  # lattice: an exact lattice/list point ahead, computed in floating point
        if sched["cls"] in ("constant", "logarithmic"):
            t = a0 + int(rng.integers(1, 60)) * sched["dt"]
        elif sched["cls"] == "geometric":
            t = sched["scale"] * sched["factor"] ** int(rng.integers(-3, 12))
        else:
            pts = sched["points"]
            t = float(rng.choice(pts)) if pts else base
    return max(t, q_prev)


# --------------------------------------------------------------------------------------
# oracle


def check_sequence(sched: dict, queries: list[float], answers: list[float], res: ShardResult, kinds) -> str | None:
    """Return a description of the first violated clause (or None)."""
    cls = sched["cls"]
    scale_t = max([abs(x) for x in queries] + [abs(a) for a in answers if math.isfinite(a)] + [1e-300])
    exhausted = False
    a_prev = None
    k_prev = None
    for i, (t, a) in enumerate(zip(queries, answers)):
        nops = i + 4
        tol = 8 * nops * EPS * scale_t
        if isinstance(a, (np.floating, np.integer)):
            a = float(a)
        if not isinstance(a, (int, float)) or a != a:
            return f"answer {i} is not a number: {a!r}"
        if exhausted and a != math.inf:
            return f"answer {i} = {a!r} after the schedule had answered inf"
        if a == math.inf:
            if cls != "fixed":
                return f"answer {i}: infinite answer of a never-ending schedule"
            # all list points must have been passed or consumed
            pts = sched["points"]
            remaining = [p for p in pts if p >= t + tol and (a_prev is None or p > a_prev + tol)]
            if remaining:
                return f"answer {i}: inf although list element {remaining[0]!r} is not yet passed (query {t!r})"
            if not exhausted:
                res.count("exhausted_seen")
            exhausted = True
            continue
        # (A) not earlier than the query
        if a < t - tol:
            return f"answer {i} = {a!r} earlier than the query {t!r} (tol {tol:.3g})"
        # (B) strictly later than the previous answer
        if a_prev is not None and not a > a_prev:
            return f"answer {i} = {a!r} not strictly later than previous answer {a_prev!r}"
        # (C) membership
        if cls == "constant":
            a0 = answers[0]
            if i == 0:
                t_start = sched["t_start"]
                expect = t if t_start is None else max(t, t_start)
                if a != expect:
                    return f"first answer {a!r} != max(t0, t_start) = {expect!r}"
                k_prev = 0
            else:
                dt = sched["dt"]
                r = (Fr(a) - Fr(a0)) / Fr(dt)
                k = round(r)
                if abs(r - k) * Fr(dt) > tol:
                    return f"answer {i} = {a!r} off the lattice {a0!r}+k*{dt!r} by {float(abs(r - k) * Fr(dt)):.3g} (tol {tol:.3g})"
                if k - k_prev < 1:
                    return f"answer {i}: lattice index did not advance ({k_prev}->{k})"
                if k - k_prev > 1:
                    res.count("catchups_seen")
                    # a catch-up is only legitimate if the skipped point was already passed
                    skipped = Fr(a0) + (k - 1) * Fr(dt)
                    if skipped >= Fr(t) + Fr(tol):
                        return f"answer {i} = {a!r} skips the scheduled time {float(skipped)!r} that is not yet passed (query {t!r})"
                k_prev = k
        elif cls == "logarithmic":
            if i == 0:
                t_start = sched["t_start"]
                expect = t if t_start is None else max(t, t_start)
                if a != expect:
                    return f"first answer {a!r} != max(t0, t_start) = {expect!r}"
            else:
                dt_k = Fr(sched["dt"]) * Fr(sched["factor"]) ** (i - 1)
                r = (Fr(a) - Fr(a_prev)) / dt_k
                m = round(r)
                tol_k = tol + 4 * i * EPS * float(dt_k) * max(float(r), 1.0)
                if m < 1 or abs(r - m) * dt_k > tol_k:
                    return f"answer {i}: gap {a - a_prev!r} is not a positive multiple of dt0*f^{i - 1} = {float(dt_k)!r} (ratio {float(r)!r})"
                if m > 1:
                    res.count("catchups_seen")
                    skipped = Fr(a_prev) + (m - 1) * dt_k
                    if skipped >= Fr(t) + Fr(tol_k):
                        return f"answer {i} = {a!r} skips {float(skipped)!r} which is not yet passed (query {t!r})"
        elif cls == "geometric":
            s, f = sched["scale"], sched["factor"]
            x = math.log(a / s) / math.log(f)
            k = round(x)
            ref = float(Fr(s) * Fr(f) ** k) if abs(k) < 400 else s * f**k
            if abs(a - ref) > 64 * EPS * (abs(k) + 2) * abs(ref):
                return f"answer {i} = {a!r} is not scale*factor^k (nearest k={k}: {ref!r})"
            if k_prev is not None and k <= k_prev:
                return f"answer {i}: exponent did not advance ({k_prev}->{k})"
            if k_prev is not None and k - k_prev > 1:
                res.count("catchups_seen")
            k_prev = k
        else:  # fixed
            pts = sched["points"]
            # exact comparison decides; only elements within round-off of (but not equal
            # to) the query may legitimately count as either passed or not yet passed
            fresh = [p for p in pts if a_prev is None or p > a_prev]
            exact = [p for p in fresh if p >= t]
            allowed = {exact[0] if exact else math.inf}
            near = [p for p in fresh if p != t and abs(p - t) <= tol]
            if near:
                lo = [p for p in fresh if p >= t - tol]
                hi = [p for p in fresh if p >= t + tol]
                allowed |= {lo[0] if lo else math.inf, hi[0] if hi else math.inf}
            if a not in allowed:
                return f"answer {i} = {a!r} is not the first not-yet-passed list element {sorted(allowed)} (query {t!r}, previous answer {a_prev!r})"
            if a_prev is not None and pts.index(a) - pts.index(a_prev) > 1:
                res.count("catchups_seen")
        a_prev = a
        res.count("answers_checked")
    return None


def well_conditioned(sched: dict, horizon: float) -> bool:
    """Round-off budget must stay far below the smallest gap of the schedule."""
    cls = sched["cls"]
    scale_t = max(abs(sched["t0"]), abs(horizon), abs(sched.get("t_start") or 0.0))
    if cls in ("constant", "logarithmic"):
        gap = sched["dt"]
    elif cls == "geometric":
        return sched["factor"] >= 1.0009765625 and sched["scale"] > 0
    else:
        pts = sched["points"]
        if len(pts) < 2:
            return True
        gap = float(np.min(np.diff(pts)))
        scale_t = max(scale_t, abs(pts[0]), abs(pts[-1]))
    return gap > 1e6 * EPS * max(scale_t, 1e-300) * 400


def run_shard(spec: dict) -> ShardResult:
    res = ShardResult(spec)
    rng = np.random.default_rng([spec["seed"], 9, spec["index"]])
    for case_no in range(spec["cases"]):
        sched = gen_schedule(rng)
        n_q = int(rng.integers(5, 41))
        style = rng.integers(4)  # 0: controller-like, 1: boundary heavy, 2: skipping heavy, 3: mixed
        weights = {
            0: [6, 1, 1, 2, 0.5, 0.5, 0.5, 0.5, 0.1],
            1: [3, 3, 3, 1, 0.5, 1, 1, 3, 0.1],
            2: [1, 0.5, 0.5, 1, 4, 0.5, 0.5, 1, 1],
            3: [1] * 9,
        }[int(style)]
        p = np.array(weights) / np.sum(weights)
        try:
            intr = build(sched)
        except Exception as exc:  # constructing a grammatical schedule must not fail
            res.violation(f"constructor raised {type(exc).__name__}: {exc}", sched)
            continue
        queries = [sched["t0"]]
        answers = [intr.initialize(sched["t0"])]
        kinds = ["init"]
        a0 = answers[0]
        copy_done = False
        conditioned = True
        for step in range(1, n_q):
            kind = str(rng.choice(KINDS, p=p))
            t = next_query(rng, kind, sched, queries[-1], answers[-1], a0, step)
            if not math.isfinite(t):
                break
            if not well_conditioned(sched, t):
                conditioned = False
                break
            if not copy_done and rng.random() < 0.04:
                # advancing a copy must not disturb the original's cursor
                dup = intr.copy()
                try:
                    dup.initialize(t)
                    for _ in range(3):
                        dup.next(t + 10 * typical_gap(sched, t))
                except Exception as exc:
                    res.violation(f"copy raised {type(exc).__name__}: {exc}", {"schedule": sched})
                copy_done = True
                res.count("copies_checked")
            try:
                a = intr.next(t)
            except Exception as exc:
                res.violation(
                    f"next() raised {type(exc).__name__}: {exc}",
                    {"schedule": sched, "queries": queries + [t]},
                )
                break
            queries.append(t)
            answers.append(float(a) if isinstance(a, (np.floating, np.integer)) else a)
            kinds.append(kind)
        if not conditioned or not well_conditioned(sched, queries[-1]):
            res.count("ill_conditioned_draws_not_judged")
            continue
        before = res.counters.get("catchups_seen", 0)
        err = check_sequence(sched, queries, answers, res, kinds)
        n_boundary = sum(k in ("on", "ulp_before", "ulp_after", "lattice") for k in kinds)
        res.count("boundary_queries", n_boundary)
        nontrivial = n_boundary > 0 or res.counters.get("catchups_seen", 0) > before
        res.case((sched["cls"], sched["route"], kinds), nontrivial=nontrivial)
        res.seen("classes", sched["cls"] + "/" + sched["route"])
        if case_no < 2:
            res.sample({"schedule": sched, "queries": queries[:8], "answers": answers[:8], "kinds": kinds[:8]})
        if err:
            res.violation(err, {"schedule": sched, "queries": queries, "kinds": kinds}, answers=answers)
    return res
