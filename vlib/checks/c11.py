"""C11 — compiling an expression preserves its meaning.

Events: values of ``ScalarExpression(text)(*args)``, ``get_function('numpy'|'numba')`` with
scalar and array arguments and ``single_arg`` both ways, ``TensorExpression``,
``ScalarField/VectorField/Tensor2Field.from_expression``, ``differentiate`` / ``derivatives``.
Oracle: :mod:`vlib.models.exproracle` — the text is evaluated through Python's ``ast`` with
mpmath (no sympy); a sample is judged only where the formula is real, finite and
well-conditioned; derivatives by ``mpmath.diff``.  An exception raised by the pipeline for an
expression that has judged samples is a violation.
"""

from __future__ import annotations

import math

import numpy as np

from ..models import exproracle as ox
from ..runner import ShardResult

PROPERTY = "C11"
LEVEL = "translation_validation"
RULE = (
    "A program is one expression text from the seeded grammar (+ - * / unary minus, ** with "
    "integer/rational/negative exponents and unparenthesised chains, 21 unary and 3 binary functions "
    "incl. heaviside(x[,h])/Heaviside/atan2/hypot/erf/gamma, numeric literals incl. exponents, pi, "
    "user constants (scalars and arrays), user functions, indexed variables, comparisons, depth <= 4, "
    "shapes provoking sympy.simplify) compiled through every route and evaluated at 6 argument "
    "tuples. distinct_nontrivial counts distinct AST shapes (operators and call names) among "
    "programs with at least one judged sample and at least one function call or power."
)
ASSUMPTIONS = [
    "sign, erfc and gamma evaluate only for scalar arguments on the unchanged tree (the generated code uses the math module) and are outside the judged grammar",
    "Max/Min, Mod, floor division, log10/log2/expm1/log1p and Piecewise are outside the judged grammar (not offered by documentation or tests; several fail with NameError on the unchanged tree: recorded as observations)",
    "erf is judged on the numpy path only: numba cannot type scipy.special.erf without the optional numba-scipy package, which is absent here (counted as 'not judged: optional dependency absent')",
    "derivatives are judged only for expressions built from classically differentiable functions; values of heaviside/abs/sign/floor/ceiling/hypot/user functions are judged, their derivatives are not",
    "tolerance: max(1000 x |16-digit - 50-digit evaluation|, 1e-11 |value|, 2e-13 x largest intermediate magnitude)",
]
REQUIRED = {
    "programs_with_judged_samples": 300,
    "samples_judged": 4000,
    "numba_programs": 40,
    "array_evaluations": 800,
    "derivative_samples": 300,
    "field_constructions": 40,
    "tensor_expressions": 30,
    "function_symbols_seen": 20,
    "simplify_provoking_programs": 30,
}


def plan(tier: str, seed: int) -> list[dict]:
    quick = tier == "quick"
    shards = [{"kind": "programs", "mode": "jit", "numba": False, "cases": 110 if quick else 500, "timeout": 1800 if quick else 5000} for _ in range(10 if quick else 36)]
    shards += [{"kind": "programs", "mode": "jit", "numba": True, "known_finding_probe": i == 0, "cases": 18 if quick else 70, "timeout": 1800 if quick else 5000} for i in range(6 if quick else 24)]
    return shards


def coverage_extra(tier):
    return {}


def sample_args(rng, variables, style):
    if style == "positive":
        return {v: float(np.round(rng.uniform(0.2, 2.0), 3)) for v in variables}
    if style == "unit":
        return {v: float(np.round(rng.uniform(-0.9, 0.9), 3)) for v in variables}
    return {v: float(np.round(rng.uniform(-3, 3), 3)) for v in variables}


def run_shard(spec: dict) -> ShardResult:
    import warnings

    import pde
    from pde.tools.expressions import ScalarExpression, TensorExpression

    warnings.filterwarnings("ignore")
    res = ShardResult(spec)
    rng = np.random.default_rng([spec["seed"], 11, spec["index"]])
    use_numba = spec["numba"]
    grid = pde.CartesianGrid([[0.3, 1.7], [0.4, 1.9]], [3, 2])
    import signal

    class CaseTimeout(BaseException):
        pass

    def on_alarm(signum, frame):
        raise CaseTimeout

    signal.signal(signal.SIGALRM, on_alarm)
    for case_no in range(spec["cases"]):
        signal.alarm(0)
        # sympy.simplify (called by the package) occasionally needs minutes: a logical watchdog
        # per program; a firing watchdog makes the program "not judged", never a violation
        signal.alarm(40)
        try:
            run_case(case_no, spec, rng, res, use_numba, grid, ScalarExpression, TensorExpression, pde)
        except CaseTimeout:
            res.count("programs_not_judged_watchdog")
        finally:
            signal.alarm(0)
    run_fixed_cases(res, use_numba, ScalarExpression)
    return res


def run_case(case_no, spec, rng, res, use_numba, grid, ScalarExpression, TensorExpression, pde):
    if True:
        nvar = int(rng.choice([1, 2, 2, 3]))
        variables = ["x", "y", "z"][:nvar]
        consts = {}
        if rng.random() < 0.3:
            consts["c"] = float(np.round(rng.uniform(0.5, 2), 2))
            if rng.random() < 0.6:  # second constant, declared out of alphabetical order
                consts["a0"] = float(np.round(rng.uniform(0.5, 2), 2))
        user_funcs = {}
        oracle_funcs = {}
        if rng.random() < 0.15:
            user_funcs["f"] = lambda x: 2 * x + 1  # noqa: E731
            oracle_funcs["f"] = lambda x: 2 * x + 1  # noqa: E731
        allowed = [f for f in ox.UNARY if not (use_numba and f == "erf")]
        text, used = ox.gen_expression(rng, variables, depth=int(rng.choice([2, 3, 3, 4])), consts=list(consts), funcs=list(user_funcs), allowed_unary=allowed)
        if rng.random() < 0.06:
            a, b = rng.choice(variables), str(rng.choice(variables + ["0.5", "1"]))
            text = f"{a} {rng.choice(['>', '<', '>=', '<='])} {b}"
            used = {"compare"}
        case = {"expression": text, "variables": variables, "consts": consts, "user_functions": sorted(user_funcs), "backend_numba": use_numba}
        # ---- oracle samples ---------------------------------------------------------------
        samples = []
        for k in range(6):
            args = sample_args(rng, variables, ["positive", "positive", "unit", "any"][k % 4])
            try:
                want, tol = ox.judged_value(text, {**args, **consts}, oracle_funcs)
                samples.append((args, want, tol))
            except ox.OutsideDomain:
                res.count("samples_outside_judged_domain")
            except Exception as exc:
                res.notes.append(f"oracle failed on {text!r}: {exc}")
                res.count("oracle_failures")
                break
        if not samples:
            res.count("programs_without_judged_sample")
            return
        res.count("programs_with_judged_samples")
        for f in used:
            if not f.startswith("provoking"):
                res.seen("function_symbols_seen", f)
            else:
                res.count("simplify_provoking_programs")
        if use_numba:
            res.count("numba_programs")
        is_compare = used == {"compare"}

        def judge(have, want, tol, route, args):
            have_arr = np.asarray(have)
            if have_arr.dtype == bool:
                have_arr = have_arr.astype(float)
            res.count("samples_judged")
            if have_arr.shape != () or not np.isfinite(float(np.real(have_arr))) or abs(float(np.real(have_arr)) - want) > tol or abs(float(np.imag(have_arr))) > tol:
                mech = None
                if have_arr.shape == () and not np.isfinite(float(np.real(have_arr))) and explained_by_abs_of_power(expr, {**args, **consts}, want, tol):
                    mech = "simplify-moves-fractional-power-inside-abs"
                res.violation(f"{route}: value differs from the written formula", {**case, "arguments": args}, mechanism=mech, have=have, want=want, tolerance=tol)
                return False
            return True

        try:
            expr = ScalarExpression(text, signature=variables, consts=dict(consts), user_funcs=dict(user_funcs))
        except Exception as exc:
            res.violation(f"ScalarExpression raised {type(exc).__name__}: {str(exc)[:200]}", case)
            return
        case["sympy_form"] = str(expr._sympy_expr)[:200]
        ok = True
        # ---- scalar calls --------------------------------------------------------------------
        routes = [("__call__", lambda: expr), ("numpy function", lambda: expr.get_function("numpy"))]
        if use_numba:
            routes.append(("numba function", lambda: expr.get_function("numba")))
        for rname, make in routes:
            try:
                fn = make()
                for args, want, tol in samples:
                    if not judge(fn(*[args[v] for v in variables]), want, tol, rname, args):
                        ok = False
                        break
            except Exception as exc:
                res.violation(f"{rname} raised {type(exc).__name__}: {str(exc)[:300]}", case)
                ok = False
            if not ok:
                break
        if not ok:
            return
        # ---- arrays and single_arg ----------------------------------------------------------------
        arrs = [np.array([s[0][v] for s in samples]) for v in variables]
        wants = np.array([s[1] for s in samples])
        tols = np.array([s[2] for s in samples])
        backends = ["numpy"] + (["numba"] if use_numba else [])
        for b in backends:
            try:
                out = np.asarray(expr.get_function(b)(*arrs), dtype=float)
                res.count("array_evaluations")
                if out.shape == ():
                    out = np.full(wants.shape, float(out))  # constant expression
                if out.shape != wants.shape or not (np.abs(out - wants) <= tols).all():
                    mech = None
                    if out.shape == wants.shape:
                        bad = ~(np.abs(out - wants) <= tols)
                        if not np.isfinite(out[bad]).any() and all(explained_by_abs_of_power(expr, {**samples[i][0], **consts}, wants[i], tols[i]) for i in np.nonzero(bad)[0]):
                            mech = "simplify-moves-fractional-power-inside-abs"
                    res.violation(f"{b} function with array arguments is not the elementwise formula", case, mechanism=mech, have=out, want=wants)
                    ok = False
                    break
                stacked = np.array(arrs)
                out1 = np.asarray(expr.get_function(b, single_arg=True)(stacked), dtype=float)
                res.count("array_evaluations")
                if out1.shape == ():
                    out1 = np.full(wants.shape, float(out1))
                if out1.shape != wants.shape or not (np.abs(out1 - wants) <= tols).all():
                    res.violation(f"{b} function with single_arg=True differs from the formula", case, have=out1, want=wants)
                    ok = False
                    break
            except Exception as exc:
                mech = None
                if b == "numba" and isinstance(exc, NotImplementedError) and "layout 'A'" in str(exc) and ("re(" in case.get("sympy_form", "") or "im(" in case.get("sympy_form", "")):
                    mech = "numba-array-re-im-layout"
                res.violation(f"{b} function with array arguments raised {type(exc).__name__}: {str(exc)[:300]}", case, mechanism=mech)
                ok = False
                break
        if not ok:
            return
        # ---- array constants -----------------------------------------------------------------------
        if case_no % 5 == 0 and not is_compare:
            karr = np.round(rng.uniform(0.5, 1.5, size=len(samples)), 2)
            text_k = f"({text}) * k + k"
            try:
                ek = ScalarExpression(text_k, signature=variables, consts={**consts, "k": karr}, user_funcs=dict(user_funcs))
                out = np.asarray(ek.get_function("numpy")(*arrs), dtype=float)
                want_k = wants * karr + karr
                if out.shape == ():
                    out = np.full(want_k.shape, float(out))  # simplified to a constant
                if out.shape != want_k.shape or not (np.abs(out - want_k) <= tols * (np.abs(karr) + 1) + 1e-12 * np.abs(want_k)).all():
                    res.violation("array-valued constant is not applied elementwise", {**case, "expression": text_k}, have=out, want=want_k)
                res.count("array_evaluations")
            except Exception as exc:
                res.violation(f"expression with array constant raised {type(exc).__name__}: {str(exc)[:200]}", {**case, "expression": text_k})
        # ---- derivatives ---------------------------------------------------------------------------
        differentiable = not is_compare and all(f in ox.DIFFERENTIABLE or f == "**" or f.startswith("provoking") for f in used) and not user_funcs \
            and "abs" not in text and "sqrt((" not in text
        if differentiable:
            var = str(rng.choice(variables))
            try:
                d_expr = expr.differentiate(var)
                grad = expr.derivatives
                for args, want, tol in samples[:3]:
                    try:
                        # nested exponentials in the derivative overflow the double range long before
                        # the formula itself does: judge derivatives only for moderate magnitudes
                        if ox.evaluate(text, {**args, **consts}, 30)[1] > 12:
                            continue
                        dwant = ox.derivative(text, {**args, **consts}, var)
                    except (ox.OutsideDomain, Exception):
                        continue
                    vals = [args[v] for v in variables]
                    have = float(np.real(d_expr(*vals)))
                    dtol = 1e-6 * (abs(dwant) + 1e-6) + 1e3 * tol
                    res.count("derivative_samples")
                    if not np.isfinite(have) or abs(have - dwant) > dtol:
                        res.violation(f"symbolic derivative with respect to {var} differs from the derivative of the formula", {**case, "arguments": args}, have=have, want=dwant)
                        break
                    g = np.asarray(grad(*vals), dtype=float)
                    if g.shape != (len(variables),) or not abs(g[variables.index(var)] - dwant) <= dtol:
                        res.violation("entry of `derivatives` differs from the derivative of the formula", {**case, "arguments": args}, have=g, want=dwant)
                        break
            except Exception as exc:
                res.violation(f"differentiation raised {type(exc).__name__}: {str(exc)[:200]}", case)
        # ---- fields from expressions ------------------------------------------------------------------
        if nvar <= 2 and not user_funcs and not consts and case_no % 3 == 0 and not is_compare:
            coords = grid.cell_coords.reshape(-1, 2)
            want_f, tol_f, judged = [], [], True
            for p in coords:
                try:
                    w, t = ox.judged_value(text, dict(zip(["x", "y"], map(float, p))))
                    want_f.append(w)
                    tol_f.append(t)
                except ox.OutsideDomain:
                    judged = False
                    break
            if judged:
                want_f = np.array(want_f).reshape(grid.shape)
                tol_f = np.array(tol_f).reshape(grid.shape)
                try:
                    sf = pde.ScalarField.from_expression(grid, text)
                    res.count("field_constructions")
                    if not (np.abs(sf.data - want_f) <= tol_f).all():
                        res.violation("ScalarField.from_expression differs from the formula at the cell centres", case, have=sf.data, want=want_f)
                    vf = pde.VectorField.from_expression(grid, [text, "x - y"])
                    if not (np.abs(vf.data[0] - want_f) <= tol_f).all() or not np.allclose(vf.data[1], grid.cell_coords[..., 0] - grid.cell_coords[..., 1], rtol=1e-13, atol=1e-15):
                        res.violation("VectorField.from_expression: components differ from the formulas", case)
                    tf = pde.Tensor2Field.from_expression(grid, [["1", text], ["y", "x"]])
                    if not (np.abs(tf.data[0, 1] - want_f) <= tol_f).all() or not np.allclose(tf.data[1, 0], grid.cell_coords[..., 1]) or not np.allclose(tf.data[0, 0], 1):
                        res.violation("Tensor2Field.from_expression: components are misplaced or differ from the formulas", case)
                except Exception as exc:
                    res.violation(f"from_expression raised {type(exc).__name__}: {str(exc)[:200]}", case)
        # ---- tensor expressions --------------------------------------------------------------------------
        if case_no % 6 == 0 and not is_compare:
            ttext = f"[[{text}, {variables[0]}**2], [2, {variables[-1]} + 1]]"
            try:
                te = TensorExpression(ttext, signature=variables, consts=dict(consts), user_funcs=dict(user_funcs))
                args, want, tol = samples[0]
                vals = [args[v] for v in variables]
                out = np.asarray(te(*vals), dtype=float)
                res.count("tensor_expressions")
                expect = np.array([[want, vals[0] ** 2], [2.0, vals[-1] + 1]])
                if out.shape != (2, 2) or not (np.abs(out - expect) <= tol + 1e-12 * (np.abs(expect) + 1)).all():
                    res.violation("TensorExpression entries differ from the formulas", {**case, "expression": ttext}, have=out, want=expect)
            except Exception as exc:
                res.violation(f"TensorExpression raised {type(exc).__name__}: {str(exc)[:200]}", {**case, "expression": ttext})
        nontrivial = bool(used - {"compare"})
        res.case(ox.shape_of(text) + ("|numba" if use_numba else ""), nontrivial=nontrivial)
        if case_no < 2:
            res.sample({**case, "first_sample": {"arguments": samples[0][0], "value": samples[0][1]}})


def explained_by_abs_of_power(expr, env, want, tol) -> bool:
    """Alternative-model predicate of known finding F22.

    The package's simplified form contains Abs(<product with a non-integer power>); over the
    reals |b**p| = |b|**p, so the model is that same form with every non-integer power under
    an Abs taken of |base| instead of base, evaluated through the same numpy code generation.
    The finding is matched iff this model reproduces the written formula (the only difference
    to what the package evaluates is the real-number power of a negative base, i.e. nan)."""
    import sympy
    from pde.tools import expressions as px

    try:
        form = expr._sympy_expr

        def nonint(q):
            return isinstance(q, sympy.Pow) and q.exp.is_integer is not True

        targets = [a for a in form.atoms(sympy.Abs) if any(nonint(q) for q in a.args[0].atoms(sympy.Pow))]
        if not targets:
            return False
        repl = {a: sympy.Abs(a.args[0].replace(nonint, lambda q: sympy.Pow(sympy.Abs(q.base), q.exp))) for a in targets}
        model = form.xreplace(repl)
        syms = sorted(model.free_symbols, key=lambda q: q.name)
        if any(q.name not in env for q in syms):
            return False
        namespace = {**getattr(px, "SPECIAL_FUNCTIONS", {}), **getattr(expr, "user_funcs", {})}
        fn = sympy.lambdify(syms, model, modules=[namespace, "numpy"])
        with np.errstate(all="ignore"):
            val = complex(fn(*[env[q.name] for q in syms]))
        return bool(abs(val.real - want) <= 10 * tol + 1e-9 * abs(want) and abs(val.imag) <= 10 * tol + 1e-9 * abs(want))
    except Exception:
        return False


def run_fixed_cases(res, use_numba, ScalarExpression):
    if res.spec.get("known_finding_probe"):
        # fixed witness of known finding F22 (reported on every run)
        text, x = "1/sqrt(abs(x))", -0.41
        e = ScalarExpression(text, signature=["x"])
        want = 1 / math.sqrt(abs(x))
        for b in ["numpy"] + (["numba"] if use_numba else []):
            have = float(e.get_function(b)(x))
            if not abs(have - want) <= 1e-12 * want:
                mech = "simplify-moves-fractional-power-inside-abs" if not np.isfinite(have) and explained_by_abs_of_power(e, {"x": x}, want, 1e-12) else None
                res.violation(f"{b} function: value differs from the written formula", {"expression": text, "sympy_form": str(e._sympy_expr), "arguments": {"x": x}},
                              mechanism=mech, have=have, want=want)
    # ---- fields from expressions with user functions (array-capable or scalar-only) and constants ------------
    import pde

    def f_lin(x):
        return 2 * x + 1

    def ramp(x):  # scalar-only: forces the point-wise evaluation; integer-valued on the negative branch
        return x if x > 0 else 0

    def step(x):  # scalar-only, always integer-valued
        return 1 if x > 0.2 else 0

    fgrid = pde.CartesianGrid([[-1.0, 1.0], [-0.5, 1.5]], [4, 3])
    X, Y = fgrid.cell_coords[..., 0], fgrid.cell_coords[..., 1]
    vr, vs = np.vectorize(ramp, otypes=[float]), np.vectorize(step, otypes=[float])
    funcs = {"f": f_lin, "ramp": ramp, "step": step}
    for text, want in [
        ("ramp(x)", vr(X)), ("2 * ramp(x) + 1", 2 * vr(X) + 1), ("ramp(x + y)", vr(X + Y)), ("ramp(x) * y + step(y)", vr(X) * Y + vs(Y)),
        ("f(x) - ramp(y)", f_lin(X) - vr(Y)), ("step(x) + 0.5 * y", vs(X) + 0.5 * Y), ("ramp(x)**2 + ramp(-x)", vr(X) ** 2 + vr(-X)),
        ("k * ramp(x - y)", 1.5 * vr(X - Y)), ("f(x * y) + k", f_lin(X * Y) + 1.5), ("step(y - x)", vs(Y - X)),
    ]:
        case = {"expression": text, "user_functions": sorted(funcs), "consts": {"k": 1.5}, "grid": "CartesianGrid([[-1, 1], [-0.5, 1.5]], [4, 3])"}
        try:
            sf = pde.ScalarField.from_expression(fgrid, text, user_funcs=dict(funcs), consts={"k": 1.5})
            res.count("field_constructions")
            if sf.data.shape != want.shape or not (np.abs(sf.data - want) <= 1e-13 * (1 + np.abs(want))).all():
                res.violation("ScalarField.from_expression with user functions differs from the formula at the cell centres", case, have=sf.data, want=want)
            if "ramp" not in text and "step" not in text:
                # only the scalar constructor falls back to point-wise evaluation for scalar-only functions
                vf = pde.VectorField.from_expression(fgrid, [text, "y - f(x)"], user_funcs=dict(funcs), consts={"k": 1.5})
                if not (np.abs(vf.data[0] - want) <= 1e-13 * (1 + np.abs(want))).all() or not np.allclose(vf.data[1], Y - f_lin(X), rtol=1e-13, atol=1e-15):
                    res.violation("VectorField.from_expression with user functions differs from the formulas", case, have=vf.data[0], want=want)
        except Exception as exc:
            res.violation(f"from_expression with user functions raised {type(exc).__name__}: {str(exc)[:200]}", case)
    # ---- integer coefficients beyond 64 bits (power towers) ---------------------------------------------------
    for text, x, want in [("(x + x)**81", 0.6, 1.2**81), ("(3*x)**45 - x", 0.4, 1.2**45 - 0.4), ("x * 2**64 + 1", 0.5, 2.0**63 + 1), ("(x / 3)**50 * 3**50", 1.5, 1.5**50)]:
        e = None
        try:
            e = ScalarExpression(text, signature=["x"])
            for b in ["numpy"] + (["numba"] if use_numba else []):
                have = float(e.get_function(b)(x))
                res.count("samples_judged")
                if not abs(have - want) <= 1e-12 * abs(want):
                    res.violation(f"{b} function: value differs from the written formula", {"expression": text, "arguments": {"x": x}}, have=have, want=want)
        except Exception as exc:
            res.violation(f"expression with large integer coefficients raised {type(exc).__name__}: {str(exc)[:200]}",
                          {"expression": text, "sympy_form": str(getattr(e, "_sympy_expr", "?"))[:200]})
    if use_numba and res.spec.get("known_finding_probe"):
        # fixed witness of known finding F20 (reported on every run)
        e = ScalarExpression("abs(exp(sqrt(y)))", signature=["x", "y"])
        try:
            e.get_function("numba", single_arg=True)(np.array([[0.5, 1.5], [0.7, 1.2]]))
        except NotImplementedError as exc:
            if "layout 'A'" in str(exc):
                res.violation("numba function with single_arg=True raised NotImplementedError", {"expression": "abs(exp(sqrt(y)))", "sympy_form": str(e._sympy_expr)},
                              mechanism="numba-array-re-im-layout")
    # ---- indexed variables and coordinate aliases (fixed small set) ---------------------------------------
    for text, sig, kw, args, want in [
        ("arr[0] + 2 * arr[1]**2", ["arr"], {"allow_indexed": True}, (np.array([0.5, 1.5]),), 0.5 + 2 * 1.5**2),
        ("sin(arr[1]) * arr[0]", ["arr"], {"allow_indexed": True}, (np.array([2.0, 0.3]),), 2.0 * np.sin(0.3)),
        ("phi + 2 * r", [["r"], ["φ", "phi"]], {}, (0.7, 0.2), 0.2 + 1.4),
        ("r * cos(φ)", ["r", "φ"], {"repl": {"phi": "φ"}}, (0.7, 0.2), 0.7 * np.cos(0.2)),
    ]:
        try:
            e = ScalarExpression(text, signature=sig, **kw)
            for b in ["numpy"] + (["numba"] if use_numba else []):
                have = float(e.get_function(b)(*args))
                res.count("samples_judged")
                if abs(have - want) > 1e-12 * (abs(want) + 1):
                    res.violation(f"{b}: indexed variable / alias expression differs from the formula", {"expression": text}, have=have, want=want)
        except Exception as exc:
            res.violation(f"indexed variable / alias expression raised {type(exc).__name__}: {str(exc)[:200]}", {"expression": text})
