"""C08 — trackers fire exactly once per scheduled time, in order, even when stopping.

Events: call logs of recording trackers (time, state bytes) incl. ``initialize``/``finalize``
counts, ``MemoryStorage.times`` / ``DataTracker.times`` of the package's own trackers,
``info['controller']`` (t_final, stop_reason, successful) and the returned state.

Oracle, part A (schedules): per tracker strictly increasing call times that are genuine
simulation times (t_start + n*dt carrying the state after n steps — the state of the linear
probe identifies n); constant interval D >= dt: every scheduled time <= t_end matched by exactly
one call within dt/2 (1e-9 for adaptive steppers), no unmatched calls except at most one at the
final time of a range that is not a whole number of steps; storage frame count.

Part B (fault enumeration): for a run with several trackers *every* (tracker, k-th call) is
used once as the point where StopIteration / FinishedSimulation(value) is raised.  The logs of
the stopped run must equal the logs of the undisturbed twin truncated at the stop time
(trackers due at the stop time are still served, nothing is served later), t_final and the
returned state are those of the stop time, the reason and success flag are reported, every
tracker is initialised and finalised exactly once.
"""

from __future__ import annotations

import math

import numpy as np

from ..monitors import probe
from ..runner import ShardResult
from .c07 import DTS, execute

PROPERTY = "C08"
LEVEL = "fault_enumeration"
RULE = (
    "Part A: a case is one run (solver, backend, dt, range, 1-4 recording trackers with equal, "
    "nested, incommensurate constant intervals or fixed/log/geometric schedules, plus the package's "
    "storage/data trackers). Part B: for one run configuration every (tracker index, call index) "
    "pair is one fault-injection case (stop kind alternates, with/without reason). Distinct = "
    "distinct (solver, backend, whole/partial range, interval ratios D/dt, tracker count, stop "
    "tracker, stop call class first/middle/last, stop kind, number of trackers due at the stop "
    "time); non-trivial = at least two trackers or a stop that coincides with another due tracker."
)
ASSUMPTIONS = [
    "scheduled times within 1e-9*dt of t_end may or may not be served (round-off of the schedule)",
    "the probe equation is linear with |1+z| != 1 so that the recorded state identifies the number of steps taken",
    "stops are raised from tracker.handle; post-step-hook stops are outside the statement",
]
REQUIRED = {
    "tracker_logs_checked": 500,
    "scheduled_times_matched": 3000,
    "states_identified": 3000,
    "stop_points_injected": 300,
    "stops_with_coincident_trackers": 40,
    "storage_frame_counts_checked": 40,
    "adaptive_runs": 15,
    "finalize_counts_checked": 300,
}


def plan(tier: str, seed: int) -> list[dict]:
    quick = tier == "quick"
    shards = []
    for _ in range(8 if quick else 32):
        shards.append({"kind": "schedules", "mode": "jit", "backend": "numpy", "cases": 60 if quick else 300, "timeout": 1500 if quick else 4000})
    for _ in range(6 if quick else 24):
        shards.append({"kind": "stops", "mode": "jit", "backend": "numpy", "configs": 5 if quick else 25, "timeout": 1500 if quick else 4000})
    for _ in range(2 if quick else 8):
        shards.append({"kind": "schedules", "mode": "jit", "backend": "numba", "cases": 4 if quick else 12, "timeout": 1500 if quick else 4000})
    shards.append({"kind": "stops", "mode": "jit", "backend": "numba", "configs": 1 if quick else 4, "timeout": 1500 if quick else 4000})
    return shards


# --------------------------------------------------------------------------------------


def gen_config(rng, backend, for_stops=False):
    solver = str(rng.choice(["euler", "runge-kutta", "adams-bashforth"], p=[0.7, 0.15, 0.15]))
    dt = float(rng.choice(DTS))
    N = int(rng.choice([3, 5, 8, 12, 20] if for_stops or backend == "numba" else [2, 3, 5, 8, 12, 30, 60]))
    whole = rng.random() < 0.6
    frac = 0.0 if whole else float(rng.choice([0.3, 0.5, 0.8, 0.49]))
    T = (N + frac) * dt
    t0 = float(rng.choice([0.0, 0.0, 1.0, -2.2, 10.5]))
    a = -float(rng.uniform(0.15, 0.6)) / dt
    ntr = int(rng.choice([1, 2, 3, 4], p=[0.15, 0.4, 0.3, 0.15]))
    base = float(rng.choice([1.0, 2.0, 3.0, 1.37, math.sqrt(2), 2.5]))
    trackers = []
    for i in range(ntr):
        style = str(rng.choice(["same", "nested", "incomm", "other"], p=[0.25, 0.3, 0.3, 0.15]))
        if style == "same" or i == 0:
            trackers.append({"kind": "constant", "dt": dt * base, "t_start": None})
        elif style == "nested":
            trackers.append({"kind": "constant", "dt": dt * base * float(rng.choice([2, 3])), "t_start": None})
        elif style == "incomm":
            trackers.append({"kind": "constant", "dt": dt * float(rng.choice([1.0, math.pi / 2, 1.9, 4.4, 2.0])), "t_start": None if rng.random() < 0.7 else float(t0 + rng.uniform(0, 0.5) * T)})
        else:
            kind = str(rng.choice(["fixed", "logarithmic", "geometric"]))
            if kind == "fixed":
                pts = sorted({float(t0 + rng.uniform(0, 1.05) * T) for _ in range(int(rng.integers(1, 5)))})
                trackers.append({"kind": kind, "points": pts})
            elif kind == "logarithmic":
                trackers.append({"kind": kind, "dt": dt * 1.2, "factor": 1.6, "t_start": None})
            else:
                trackers.append({"kind": kind, "scale": dt * 1.1, "factor": 2.0})
    ncell = int(rng.integers(1, 3))
    u0 = np.round(rng.uniform(0.5, 2, size=ncell), 3) + 0.0
    return {"solver": solver, "backend": backend, "dt": dt, "t0": t0, "T": T, "whole": whole, "N": N, "a": a,
            "coeffs": (0, 0, 0, 1), "autonomous": True, "u0": u0, "trackers": trackers}


def describe(c):
    d = {k: (v.tolist() if isinstance(v, np.ndarray) else v) for k, v in c.items()}
    return d


def model_states(c, nmax):
    """States after n = 0..nmax steps by the c06 scheme model (identifies n)."""
    from .c06 import model_final

    return [np.asarray(c["u0"], dtype=complex)] + [
        model_final(c["solver"], c["a"], c["coeffs"], c["u0"], c["t0"], c["dt"], n) for n in range(1, nmax + 1)
    ]


def check_tracker_log(c, rec, spec, steps, t_final, states, res, case, adaptive=False):
    """Part A oracle for one tracker."""
    dt, t0, T = c["dt"], c["t0"], c["T"]
    t_end = t0 + T
    times = [t for t, _, _ in rec.calls]
    name = rec.name_
    res.count("tracker_logs_checked")
    if any(b <= a for a, b in zip(times, times[1:])):
        res.violation(f"tracker {name}: call times are not strictly increasing", case, times=times[:20])
        return
    # genuine simulation times carrying the state of that many steps
    if not adaptive:
        for t, _, ssum in rec.calls:
            n = round((t - t0) / dt)
            if abs(t - (t0 + n * dt)) > 1e-9 * dt + 8e-16 * (abs(t0) + abs(t)) * (n + 2) or n < 0 or n > steps:
                res.violation(f"tracker {name}: called at t={t!r}, which is not t_start + n*dt", case)
                return
            want = complex(states[n].sum())
            if abs(ssum - want) > 1e-9 * (abs(want) + 1e-30):
                near = [m for m in range(len(states)) if abs(ssum - complex(states[m].sum())) <= 1e-9 * abs(complex(states[m].sum()))]
                res.violation(f"tracker {name}: at t={t!r} (n={n}) it saw the state of step(s) {near}", case)
                return
            res.count("states_identified")
    if spec["kind"] != "constant" or spec["dt"] < dt * (1 - 1e-12):
        return
    # exactly-once service of the scheduled times
    D = spec["dt"]
    first = t0 if spec.get("t_start") is None else max(t0, spec["t_start"])
    half = 1e-9 if adaptive else dt / 2 * (1 + 1e-9) + 1e-12 * abs(t_end)
    used = [False] * len(times)
    k = 0
    while True:
        tau = first + k * D
        # scheduled times up to t_end must be served; a partial range is simulated up to
        # t_final (< t_end + dt), scheduled times in (t_end, t_final + dt/2] may be served
        if tau > max(t_end, t_final + half) + 1e-9 * dt:
            break
        optional = tau > t_end - 1e-9 * dt  # at (round-off of) or beyond the requested end
        late_ok = tau > t_final + 1e-9 * dt  # run ended before this time (partial range, undershoot)
        match = [i for i, t in enumerate(times) if abs(t - tau) <= half and not used[i]]
        if len(match) == 0:
            if not (optional or late_ok):
                res.violation(f"tracker {name}: scheduled time {tau!r} (k={k}, interval {D!r}) was not served", case, call_times=times[:30])
                return
        else:
            i = min(match, key=lambda i: abs(times[i] - tau))
            used[i] = True
            res.count("scheduled_times_matched")
        k += 1
    extra = [t for t, u in zip(times, used) if not u]
    if extra:
        ok = (not c["whole"]) and len(extra) == 1 and abs(extra[0] - t_final) <= 1e-9 * dt + 1e-12 * abs(t_final)
        if not ok:
            res.violation(f"tracker {name}: calls at {extra[:5]} do not belong to any scheduled time", case, call_times=times[:30])


def run_schedule_case(c, res, rng, case_no, adaptive=False):
    import pde

    Rec, _ = probe.make_trackers()
    recs = [Rec(probe.make_interrupt(s), name=f"T{i}") for i, s in enumerate(c["trackers"])]
    case = describe(c)
    dt, t0, T = c["dt"], c["t0"], c["T"]
    # package trackers observing the same run
    D_store = c["trackers"][0]["dt"] if c["trackers"][0]["kind"] == "constant" else dt * 2
    storage = pde.MemoryStorage()
    data_tracker = pde.trackers.DataTracker(lambda s, t: {"t": t, "s": float(np.real(s.data.sum()))}, interrupts=D_store)
    extra = [storage.tracker(D_store), data_tracker]
    try:
        if adaptive:
            eq = probe.make_probe(c["a"], c["coeffs"])
            grid = pde.UnitGrid([len(c["u0"])])
            state = pde.ScalarField(grid, c["u0"])
            out, info = eq.solve(state, t_range=(t0, t0 + T), dt=dt, solver=c["solver"], backend=c["backend"], tracker=recs + extra,
                                 ret_info=True, adaptive=True, tolerance=1e-4)
        else:
            eq, out, info, _ = execute(c, recs + extra)
    except Exception as exc:
        res.violation(f"run raised {type(exc).__name__}: {str(exc)[:300]}", case)
        return
    steps = info["solver"]["steps"]
    t_final = info["controller"]["t_final"]
    states = model_states(c, steps) if not adaptive else None
    for rec, spec in zip(recs, c["trackers"]):
        check_tracker_log(c, rec, spec, steps, t_final, states, res, case, adaptive=adaptive)
        if rec.n_initialize != 1 or rec.n_finalize != 1:
            res.violation(f"tracker {rec.name_}: initialize called {rec.n_initialize}x, finalize {rec.n_finalize}x", case)
        res.count("finalize_counts_checked")
    # storage frames
    if D_store >= dt * (1 - 1e-12):
        ratio = T / D_store
        lo_n, hi_n = math.floor(ratio - 1e-9) + 1, math.floor(ratio + 1e-9) + 1
        n_frames = len(storage.times)
        allowed = {lo_n, hi_n} if c["whole"] or adaptive else {lo_n, hi_n, lo_n + 1, hi_n + 1, max(lo_n - 1, 1)}
        res.count("storage_frame_counts_checked")
        if n_frames not in allowed:
            res.violation(f"storage tracker with interval {D_store!r} recorded {n_frames} frames over T={T!r}; floor(T/D)+1 = {lo_n}", case,
                          storage_times=list(storage.times)[:30])
        if list(data_tracker.times) != list(storage.times):
            res.violation("DataTracker and StorageTracker with the same interval fired at different times", case,
                          data=list(data_tracker.times)[:20], storage=list(storage.times)[:20])
        if c["trackers"][0]["kind"] == "constant" and c["trackers"][0].get("t_start") is None:
            if [t for t, _, _ in recs[0].calls] != [float(t) for t in storage.times]:
                res.violation("recording tracker and storage tracker with the same interval fired at different times", case)
    ratios = tuple(sorted(str(round(s["dt"] / dt, 3)) if s["kind"] == "constant" else s["kind"] for s in c["trackers"]))
    res.case((c["solver"], c["backend"], c["whole"], ratios, adaptive), nontrivial=len(c["trackers"]) >= 2)
    if adaptive:
        res.count("adaptive_runs")
    if case_no < 2:
        res.sample({**case, "steps": steps, "t_final": t_final, "calls": {r.name_: [t for t, _, _ in r.calls][:12] for r in recs}})


def run_stop_config(c, res, rng, max_points=60):
    """Part B: enumerate all (tracker, call) stop points of one configuration."""
    Rec, Stop = probe.make_trackers()
    case0 = describe(c)
    twins = [Rec(probe.make_interrupt(s), name=f"T{i}") for i, s in enumerate(c["trackers"])]
    try:
        eq0, out0, info0, _ = execute(c, twins)
    except Exception as exc:
        res.violation(f"twin run raised {type(exc).__name__}: {exc}", case0)
        return
    points = [(j, k) for j, tw in enumerate(twins) for k in range(len(tw.calls))]
    if len(points) > max_points:
        idx = rng.choice(len(points), size=max_points, replace=False)
        points = [points[i] for i in sorted(idx)]
    for n_pt, (j, k) in enumerate(points):
        kind = "FinishedSimulation" if (j + k) % 2 else "StopIteration"
        value = None if (j + 2 * k) % 3 == 0 else f"reason-{j}-{k}"
        objs = [
            Stop(probe.make_interrupt(s), name=f"T{i}", stop_at_call=k if i == j else None, kind=kind, value=value)
            for i, s in enumerate(c["trackers"])
        ]
        case = {**case0, "stop": {"tracker": j, "call": k, "kind": kind, "value": value}}
        try:
            eq, out, info, _ = execute(c, objs)
        except Exception as exc:
            res.violation(f"stopped run raised {type(exc).__name__}: {str(exc)[:300]}", case)
            continue
        res.count("stop_points_injected")
        t_stop = twins[j].calls[k][0]
        ctrl = info["controller"]
        # logs == twin logs truncated at the stop time
        due_together = 0
        for i, (obj, tw) in enumerate(zip(objs, twins)):
            want = [(t, b) for t, b, _ in tw.calls if t <= t_stop]
            have = [(t, b) for t, b, _ in obj.calls]
            if any(t == t_stop for t, _ in want) and i != j:
                due_together += 1
            if [t for t, _ in have] != [t for t, _ in want]:
                later = [t for t, _ in have if t > t_stop]
                missing = [t for t, _ in want if t not in [x for x, _ in have]]
                what = "was served after the stop" if later else ("due at or before the stop time was not served" if missing else "log differs")
                res.violation(f"stop at t={t_stop!r} by T{j}: tracker T{i} {what}", case, have=[t for t, _ in have][-6:], want=[t for t, _ in want][-6:])
                break
            if have != want:
                res.violation(f"stop at t={t_stop!r}: tracker T{i} saw different states than in the undisturbed run", case)
                break
            if obj.n_initialize != 1 or obj.n_finalize != 1:
                res.violation(f"stop at t={t_stop!r}: tracker T{i} initialised {obj.n_initialize}x / finalised {obj.n_finalize}x", case)
                break
            res.count("finalize_counts_checked")
        if due_together:
            res.count("stops_with_coincident_trackers")
        if ctrl.get("t_final") != t_stop:
            res.violation(f"run stopped at t={t_stop!r} reports t_final={ctrl.get('t_final')!r}", case)
        if out.data.tobytes() != twins[j].calls[k][1]:
            res.violation("returned state is not the state at the stop time", case)
        want_reason = value if value else ("Tracker raised FinishedSimulation" if kind == "FinishedSimulation" else "Tracker raised StopIteration")
        if ctrl.get("stop_reason") != want_reason:
            res.violation(f"stop reason {ctrl.get('stop_reason')!r}, expected {want_reason!r}", case)
        if ctrl.get("successful") is not (kind == "FinishedSimulation"):
            res.violation(f"successful={ctrl.get('successful')!r} after {kind}", case)
        pos = "first" if k == 0 else ("last" if k == len(twins[j].calls) - 1 else "middle")
        res.case((c["solver"], c["backend"], c["whole"], len(c["trackers"]), j, pos, kind, value is None, due_together), nontrivial=len(c["trackers"]) >= 2 or due_together > 0)
        if n_pt < 1:
            res.sample({**case, "t_stop": t_stop, "trackers_also_due": due_together, "controller": {k2: str(ctrl.get(k2)) for k2 in ("t_final", "stop_reason", "successful")}})


def run_shard(spec: dict) -> ShardResult:
    res = ShardResult(spec)
    rng = np.random.default_rng([spec["seed"], 8, spec["index"]])
    backend = spec["backend"]
    if spec["kind"] == "schedules":
        for case_no in range(spec["cases"]):
            adaptive = case_no % 6 == 5
            c = gen_config(rng, backend)
            if adaptive:
                c["solver"] = str(rng.choice(["euler", "runge-kutta"]))
                c["trackers"] = [t for t in c["trackers"] if t["kind"] == "constant"] or [{"kind": "constant", "dt": c["dt"] * 2, "t_start": None}]
            run_schedule_case(c, res, rng, case_no, adaptive=adaptive)
    else:
        for _ in range(spec["configs"]):
            c = gen_config(rng, backend, for_stops=True)
            if len(c["trackers"]) < 2:
                c["trackers"].append(dict(c["trackers"][0]))
            run_stop_config(c, res, rng)
    return res
