"""C06 — time steppers realise their scheme exactly, on every backend.

Events: the ProbePDE log ``(t, checksum(u))`` of every right-hand-side evaluation (numpy and
numba steppers, the latter through ``numba.objmode``), the final state, ``info['solver']
['steps']``, ``info['controller']['t_final']`` and the adaptive steppers' statistics.
Oracle: 50-digit ``mpmath`` recurrences of the defining updates on du/dt = a*u + f(t), the
stage-time pattern of each scheme, and for adaptive runs the end time, the reconstructed
step sizes and the ``steps * tolerance`` error bound on autonomous dissipative problems.
"""

from __future__ import annotations

import math

import numpy as np

from ..monitors import probe
from ..runner import ShardResult

PROPERTY = "C06"
LEVEL = "exploration"
RULE = (
    "A case is one eq.solve run of the probe equation du/dt = a*u + c0 + c1*t + c2*sin(w*t) on a "
    "grid of 1-3 cells with distinct initial values: (solver, backend, a real/complex/0, dt, "
    "steps, t_start, forcing, fixed or adaptive). Distinct = distinct (solver, backend, adaptive, "
    "sign/type of a, forcing kind, step-count class, t_start class); non-trivial = a != 0 or "
    "non-constant forcing, and at least 2 steps."
)
ASSUMPTIONS = [
    "implicit and Crank-Nicolson solvers are run with maxerror=1e-13 and |a*dt| <= 0.35 so that the fixed-point iterations converge ('iterations converged' in the statement)",
    "the adaptive clause is judged on autonomous dissipative problems (a < 0 real, no forcing), as stated",
    "scipy solver: only t_final == t_end and a loose accuracy bound (its own rtol/atol control the error)",
    "observation only (not judged): the adaptive Euler stepper evaluates the rate of an accepted state at the time of the step start; the statement's stage-time clause concerns the fixed-step schemes",
]
REQUIRED = {
    "fixed_runs_numpy": 300,
    "fixed_runs_numba": 20,
    "stage_logs_checked": 300,
    "adaptive_runs": 40,
    "backend_pairs_compared": 20,
    "solvers_seen": 6,
    "complex_rates": 20,
    "runs_with_segments": 100,
    "rhs_forms_seen": 4,
}
FIXED = ["euler", "runge-kutta", "implicit", "crank-nicolson", "adams-bashforth"]


def plan(tier: str, seed: int) -> list[dict]:
    quick = tier == "quick"
    shards = []
    for _ in range(8 if quick else 32):
        shards.append({"kind": "fixed", "mode": "jit", "backend": "numpy", "cases": 200 if quick else 800, "timeout": 1500 if quick else 4000})
    for _ in range(6 if quick else 24):
        shards.append({"kind": "fixed", "mode": "jit", "backend": "numba", "cases": 10 if quick else 30, "timeout": 1500 if quick else 4000})
    for i in range(2 if quick else 8):
        shards.append({"kind": "adaptive", "mode": "jit", "cases": 24 if quick else 80, "timeout": 1500 if quick else 4000, "known_finding_probe": i == 0})
    return shards


# --------------------------------------------------------------------------------------
# scheme models (mpmath)


def model_final(solver, a, coeffs, u0, t0, dt, steps):
    import mpmath as mp

    mp.mp.dps = 50
    c0, c1, c2, w = (mp.mpf(c) for c in coeffs)
    a = mp.mpc(a)
    dt = mp.mpf(dt)
    t0 = mp.mpf(t0)

    def f(t):
        return c0 + c1 * t + c2 * mp.sin(w * t)

    def rate(u, t):
        return a * u + f(t)

    out = []
    for u in u0:
        u = mp.mpc(u)
        prev = None
        if solver == "adams-bashforth":
            prev = u - dt * rate(u, t0)
        for n in range(steps):
            t = t0 + n * dt
            if solver == "euler":
                u = u + dt * rate(u, t)
            elif solver == "runge-kutta":
                k1 = dt * rate(u, t)
                k2 = dt * rate(u + k1 / 2, t + dt / 2)
                k3 = dt * rate(u + k2 / 2, t + dt / 2)
                k4 = dt * rate(u + k3, t + dt)
                u = u + (k1 + 2 * k2 + 2 * k3 + k4) / 6
            elif solver == "implicit":
                u = (u + dt * f(t + dt)) / (1 - a * dt)
            elif solver == "crank-nicolson":
                u = (u + dt / 2 * (a * u + f(t) + f(t + dt))) / (1 - a * dt / 2)
            elif solver == "adams-bashforth":
                new = u + dt * (mp.mpf(3) / 2 * rate(u, t) - mp.mpf(1) / 2 * rate(prev, t - dt))
                prev, u = u, new
            else:
                raise ValueError(solver)
        out.append(complex(u))
    return np.array(out)


def amplification(solver, z):
    """One-step factor on du/dt = a*u stated in the property (used as a second opinion)."""
    if solver == "euler":
        return 1 + z
    if solver == "runge-kutta":
        return 1 + z + z**2 / 2 + z**3 / 6 + z**4 / 24
    if solver == "implicit":
        return 1 / (1 - z)
    if solver == "crank-nicolson":
        return (1 + z / 2) / (1 - z / 2)
    return None


def check_stage_log(solver, log, t0, dt, steps, res, case):
    """The evaluation times must follow the stage pattern of the scheme."""
    times = np.array([t for t, _ in log])
    tol = 1e-9 * dt + 1e-12 * (abs(t0) + steps * dt)
    lattice = t0 + dt * np.arange(steps + 1)

    def bad(msg):
        res.violation(f"stage times: {msg}", case, log_times=times[:24].tolist(), expected_lattice=lattice[:8].tolist())
        return False

    if solver == "euler":
        want = lattice[:-1]
    elif solver == "runge-kutta":
        want = np.concatenate([[t, t + dt / 2, t + dt / 2, t + dt] for t in lattice[:-1]])
    elif solver == "adams-bashforth":
        want = np.concatenate([[t0]] + [[t - dt, t] for t in lattice[:-1]])
    else:
        want = None
    if want is not None:
        if len(times) != len(want):
            return bad(f"{len(times)} evaluations, scheme needs {len(want)}")
        if np.abs(times - want).max() > tol:
            k = int(np.argmax(np.abs(times - want)))
            return bad(f"evaluation {k} at t={times[k]!r}, scheme evaluates at {want[k]!r}")
        return True
    # implicit / Crank-Nicolson: each step evaluates once at t_n and then (>= 1 times) at t_n + dt
    if len(times) < 2 * steps:
        return bad(f"only {len(times)} evaluations for {steps} implicit steps")
    if abs(times[0] - t0) > tol or abs(times[-1] - lattice[-1]) > tol:
        return bad(f"first/last evaluation at {times[0]!r}/{times[-1]!r}, expected {t0!r}/{lattice[-1]!r}")
    if (np.diff(times) < -tol).any():
        return bad("evaluation times decrease")
    off = np.abs(times[:, None] - lattice[None, :]).min(axis=1)
    if off.max() > tol:
        k = int(np.argmax(off))
        return bad(f"evaluation {k} at t={times[k]!r} is not a step time t_start + n*dt")
    counts = [int((np.abs(times - t) <= tol).sum()) for t in lattice]
    # t_start: the first explicit evaluation; inner step times: iterations of the previous step
    # plus the first evaluation of the next one; final time: iterations of the last step
    if counts[0] != 1 or (len(counts) > 2 and min(counts[1:-1]) < 2) or counts[-1] < 1:
        return bad(f"evaluations per step time {counts[:8]}: expected 1 at t_start, >= 2 at inner step times, >= 1 at the end")
    return True


def gen_case(rng, solver, backend):
    kind_a = str(rng.choice(["neg", "pos", "complex", "zero", "imag"], p=[0.4, 0.15, 0.25, 0.1, 0.1]))
    implicit = solver in ("implicit", "crank-nicolson")
    zmax = 0.35 if implicit else 1.2
    dt = float(rng.choice([0.1, 0.25, 1 / 3, 0.7, 1e-2, 0.3, 2.0**-4, 1e-3, 0.05]))
    mag = float(rng.uniform(0.05, zmax)) / dt
    a = {"neg": -mag, "pos": mag * 0.5, "zero": 0.0, "complex": complex(-mag * 0.7, mag * 0.6), "imag": complex(0.0, mag * 0.8)}[kind_a]
    steps = int(rng.choice([1, 2, 3, 5, 8, 13, 40, 200], p=[0.1, 0.15, 0.15, 0.15, 0.15, 0.15, 0.1, 0.05]))
    if backend == "numba":
        steps = min(steps, 40)
    if implicit and complex(a).real > 0:
        # absolute convergence threshold: keep the growth of the solution moderate
        steps = max(1, min(steps, int(3.0 / (complex(a).real * dt))))
    t0 = float(rng.choice([0.0, 0.0, 1.0, -2.5, 17.25, 1e3]))
    forcing = str(rng.choice(["none", "const", "linear", "sine"], p=[0.3, 0.15, 0.25, 0.3]))
    coeffs = {"none": (0, 0, 0, 1), "const": (0.7, 0, 0, 1), "linear": (0.3, -0.8, 0, 1), "sine": (0.2, 0.1, 0.9, 3.0)}[forcing]
    ncell = int(rng.integers(1, 4))
    u0 = np.round(rng.uniform(-2, 2, size=ncell), 3) + 0.0
    if isinstance(a, complex):
        u0 = u0 + 1j * np.round(rng.uniform(-1, 1, size=ncell), 3)
    extra = {"explicit_fraction": float(rng.choice([0.0, 0.0, 0.2, 0.5]))} if solver == "crank-nicolson" else {}
    # how the right-hand side is written: the logging probe class, the same probe returning
    # its argument itself (a = 1), or the package's expression-based PDE class (bare variable
    # "c" / "-c", or a general expression with constants and explicit time dependence)
    form = str(rng.choice(["probe", "identity", "bare", "expr"], p=[0.55, 0.1, 0.15, 0.2]))
    if form in ("identity", "bare"):
        sign = 1.0 if form == "identity" or rng.random() < 0.6 else -1.0
        dts = [d for d in (0.1, 0.25, 1 / 3, 0.7, 1e-2, 0.3, 2.0**-4, 0.05) if d <= zmax]
        dt = float(rng.choice(dts))
        a, kind_a, forcing, coeffs = sign, ("pos" if sign > 0 else "neg"), "none", (0, 0, 0, 1)
        steps = max(1, min(steps, int(3.0 / dt))) if sign > 0 else steps
        u0 = np.real(u0) + 0.0
    elif form == "expr" and isinstance(a, complex):
        form = "probe"
    extra["rhs_form"] = form
    return {**extra, "solver": solver, "backend": backend, "a": a, "a_kind": kind_a, "dt": dt, "steps": steps, "t0": t0,
            "forcing": forcing, "coeffs": coeffs, "u0": u0}


def magnitude(c):
    """Upper estimate of |u| along the run (for absolute convergence thresholds)."""
    T = c["steps"] * c["dt"]
    c0, c1, c2, _ = c["coeffs"]
    fmax = abs(c0) + abs(c1) * (abs(c["t0"]) + T) + abs(c2)
    growth = math.exp(max(0.0, complex(c["a"]).real) * T)
    return max(1.0, (float(np.abs(c["u0"]).max()) + T * fmax) * growth)


def implicit_maxerror(c):
    return 1e-13 * magnitude(c) * 10


def solve_case(c, tracker=None, adaptive=False, tolerance=None, t_end=None):
    import pde

    form = c.get("rhs_form", "probe")
    if form == "bare":
        eq = pde.PDE({"c": "c" if c["a"] > 0 else "-c"})
    elif form == "expr":
        c0, c1, c2, w = c["coeffs"]
        eq = pde.PDE({"c": "a * c + c0 + c1 * t + c2 * sin(w * t)"},
                     consts={"a": float(c["a"]), "c0": float(c0), "c1": float(c1), "c2": float(c2), "w": float(w)})
    else:
        eq = probe.make_probe(c["a"], c["coeffs"], identity=form == "identity")
    grid = pde.UnitGrid([len(c["u0"])])
    state = pde.ScalarField(grid, c["u0"], dtype=complex if np.iscomplexobj(c["u0"]) else float)
    kwargs = {}
    if c["solver"] in ("implicit", "crank-nicolson"):
        kwargs["maxerror"] = implicit_maxerror(c)
        kwargs["maxiter"] = 2000
        if c["solver"] == "crank-nicolson" and c.get("explicit_fraction"):
            kwargs["explicit_fraction"] = c["explicit_fraction"]
    if adaptive:
        kwargs["adaptive"] = True
        kwargs["tolerance"] = tolerance
    t_end = c["t0"] + c["steps"] * c["dt"] if t_end is None else t_end
    res, info = eq.solve(state, t_range=(c["t0"], t_end), dt=c["dt"], solver=c["solver"], backend=c["backend"],
                         tracker=tracker, ret_info=True, **kwargs)
    return eq, res, info


def run_fixed_shard(spec, res: ShardResult, rng):
    backend = spec["backend"]
    for case_no in range(spec["cases"]):
        solver = FIXED[(case_no + spec["index"]) % len(FIXED)]
        c = gen_case(rng, solver, backend)
        case = {k: (v.tolist() if isinstance(v, np.ndarray) else v) for k, v in c.items()}
        case["u0"] = [complex(x) if isinstance(x, complex) else x for x in case["u0"]]
        tracker = None
        if rng.random() < 0.5 and c["steps"] >= 3:
            # a read-only tracker forces the stepping loop to be re-entered (segments)
            Rec, _ = probe.make_trackers()
            every = int(rng.integers(1, max(2, c["steps"] // 2)))
            tracker = [Rec(every * c["dt"])]
            case["segments_every_steps"] = every
            res.count("runs_with_segments")
        try:
            eq, out, info = solve_case(c, tracker=tracker)
        except Exception as exc:
            res.violation(f"solve raised {type(exc).__name__}: {str(exc)[:300]}", case)
            continue
        res.count(f"fixed_runs_{backend}")
        res.seen("solvers_seen", solver)
        if isinstance(c["a"], complex):
            res.count("complex_rates")
        steps, dt, t0 = c["steps"], c["dt"], c["t0"]
        if info["solver"]["steps"] != steps:
            res.violation(f"solver reports {info['solver']['steps']} steps for a range of {steps} steps", case)
            continue
        want = model_final(solver, c["a"], c["coeffs"], c["u0"], t0, dt, steps)
        have = np.asarray(out.data, dtype=complex)
        scale = np.maximum(np.abs(want), np.abs(np.asarray(c["u0"], dtype=complex))) + abs(c["coeffs"][0]) + 1e-30
        growth = max(1.0, abs(1 + abs(c["a"]) * dt)) if solver != "runge-kutta" else 3.0
        rel = 1e-13 * (steps + 4) * growth * (1 + abs(t0) * 1e-3)
        if solver in ("implicit", "crank-nicolson"):
            # converged to the absolute threshold maxerror per step
            rel = rel + 40 * (steps + 1) * implicit_maxerror(c) / float(scale.min())
        err = np.abs(have - want) / scale
        if (err > rel).any():
            z = c["a"] * dt
            amp = amplification(solver, z)
            res.violation(
                f"final state differs from the {solver} scheme applied {steps} times (rel. error {float(err.max()):.3g}, budget {rel:.3g})",
                case, have=have, want=want, one_step_factor_expected=amp,
            )
        else:
            res.stat_max("max_rel_error_over_budget", float((err / rel).max()))
        # second opinion on the pure amplification factor (f = 0)
        if c["forcing"] == "none" and solver != "adams-bashforth" and abs(c["a"]) > 0:
            amp = amplification(solver, complex(c["a"] * dt))
            ratio = have / np.asarray(c["u0"], dtype=complex)
            if (np.abs(ratio - amp**steps) > rel * 10 * max(abs(amp) ** steps, 1.0) * float(scale.max() / np.abs(c["u0"]).min())).any():
                res.violation("state is not multiplied by the scheme's amplification factor per step", case, ratio=ratio, expected=amp**steps)
        res.seen("rhs_forms_seen", c["rhs_form"])
        if hasattr(eq, "log") and check_stage_log(solver, eq.log, t0, dt, steps, res, case):
            res.count("stage_logs_checked")
        t_final = info["controller"]["t_final"]
        t_end = t0 + steps * dt
        if abs(t_final - t_end) > 1e-9 * dt + 4e-16 * (abs(t_end) + steps * dt) * (steps + 1):
            res.violation(f"t_final={t_final!r} differs from t_end={t_end!r}", case)
        nontrivial = (c["a_kind"] != "zero" or c["forcing"] in ("linear", "sine")) and steps >= 2
        res.case((solver, backend, c["a_kind"], c["forcing"], min(steps, 3), t0 != 0), nontrivial=nontrivial)
        # numpy vs numba on the same case
        if backend == "numba":
            c2 = dict(c, backend="numpy")
            try:
                _, out2, _ = solve_case(c2)
                res.count("backend_pairs_compared")
                d = np.abs(np.asarray(out2.data) - have) / scale
                if (d > 1e-12 * (steps + 4) * growth).any():
                    res.violation("numpy and numba steppers differ beyond round-off", case, numpy=out2.data, numba=have)
            except Exception as exc:
                res.violation(f"numpy twin raised {type(exc).__name__}: {exc}", case)
        if case_no < 2:
            res.sample({**{k: str(v) for k, v in case.items()}, "final": str(have), "model": str(want), "evaluations": len(getattr(eq, "log", ()))})


# --------------------------------------------------------------------------------------
# adaptive stepping


def rkf45_replay_explains(log, a, u0, t0, T, tol, final) -> bool:
    """Alternative-model predicate of known finding F15.

    Reconstruct the accepted steps from the stage log (an attempt is accepted iff the next
    attempt starts later), replay the textbook Fehlberg 4(5) pair along them and return True
    iff (i) the observed final state IS that replay to round-off and (ii) every accepted step
    had an embedded estimate |y5 - y4| <= tolerance.  Then the code realised the scheme and
    its acceptance rule exactly and the excess over steps x tolerance can only come from the
    embedded estimate being smaller than the true local error of the propagated 4th-order
    result (by the relative size O(|a dt|) of the 5th-order result's own error)."""
    times = np.array([t for t, _ in log])
    if len(times) == 0 or len(times) % 6:
        return False
    groups = times.reshape(-1, 6)
    starts, dts = groups[:, 0], 4 * (groups[:, 1] - groups[:, 0])
    accepted = [i for i in range(len(starts)) if i == len(starts) - 1 or starts[i + 1] > starts[i]]
    if abs(sum(dts[i] for i in accepted) - T) > 1e-9 * max(T, 1.0):
        return False
    A = [[], [1 / 4], [3 / 32, 9 / 32], [1932 / 2197, -7200 / 2197, 7296 / 2197], [439 / 216, -8, 3680 / 513, -845 / 4104],
         [-8 / 27, 2, -3544 / 2565, 1859 / 4104, -11 / 40]]
    B4 = [25 / 216, 0, 1408 / 2565, 2197 / 4104, -1 / 5, 0]
    B5 = [16 / 135, 0, 6656 / 12825, 28561 / 56430, -9 / 50, 2 / 55]
    y = np.array(u0, dtype=float)
    for i in accepted:
        h = float(dts[i])
        k = []
        for row in A:
            k.append(h * a * (y + sum(c * kk for c, kk in zip(row, k))))
        y4 = y + sum(c * kk for c, kk in zip(B4, k))
        y5 = y + sum(c * kk for c, kk in zip(B5, k))
        if float(np.abs(y5 - y4).max()) > tol * (1 + 1e-6):
            return False
        y = y4
    return bool(np.abs(y - np.asarray(final, dtype=float)).max() <= 1e-11 * max(1.0, float(np.abs(y).max())))


def run_adaptive_shard(spec, res: ShardResult, rng):
    for case_no in range(spec["cases"]):
        solver = ["euler", "runge-kutta"][case_no % 2]
        backend = "numba" if case_no % 6 == 5 else "numpy"
        a = -float(rng.uniform(0.3, 3.0))
        T = float(rng.choice([0.5, 1.0, 2.0, 3.7]))
        t0 = float(rng.choice([0.0, 1.5, -1.0]))
        tol = float(rng.choice([1e-3, 1e-4, 1e-5, 1e-6]))
        dt0 = float(rng.choice([1e-3, 1e-2, 0.1, 1.0]))
        ncell = int(rng.integers(1, 4))
        u0 = np.round(rng.uniform(0.5, 2, size=ncell), 3)
        if case_no == 1 and spec.get("known_finding_probe"):
            # fixed witness of known finding F15 (so that it is reported on every run)
            a, T, t0, tol, dt0, u0, backend = -1.5899919438174837, 0.5, -1.0, 1e-3, 1.0, np.array([1.489, 1.031, 1.637]), "numpy"
        c = {"solver": solver, "backend": backend, "a": a, "coeffs": (0, 0, 0, 1), "dt": dt0, "steps": 0, "t0": t0, "u0": u0}
        case = {"solver": solver, "backend": backend, "a": a, "t_range": [t0, t0 + T], "dt_initial": dt0, "tolerance": tol, "u0": u0.tolist(), "adaptive": True}
        try:
            eq, out, info = solve_case(c, adaptive=True, tolerance=tol, t_end=t0 + T)
        except Exception as exc:
            res.violation(f"adaptive solve raised {type(exc).__name__}: {str(exc)[:300]}", case)
            continue
        res.count("adaptive_runs")
        res.seen("solvers_seen", solver)
        t_final = info["controller"]["t_final"]
        t_end = t0 + T
        if t_final != t_end:
            res.violation(f"adaptive run ends at t_final={t_final!r}, requested t_end={t_end!r}", case)
        steps = info["solver"]["steps"]
        exact = u0 * math.exp(a * T)
        err = float(np.abs(out.data - exact).max())
        if err > steps * tol:
            stats0 = info["solver"].get("dt_statistics") or {}
            zmax = abs(a) * float(stats0.get("max", 0.0))
            mech = None
            if solver == "runge-kutta" and err <= 2 * steps * tol and rkf45_replay_explains(eq.log, a, u0, t0, T, tol, out.data):
                mech = "rkf45-single-large-step-underestimates-error"
            res.violation(f"global error {err:.3g} exceeds accepted steps x tolerance = {steps}*{tol:g}", case, mechanism=mech, steps=steps, max_abs_a_dt=zmax)
        res.stat_max("max_global_error_over_steps_tol", err / (steps * tol))
        stats = info["solver"].get("dt_statistics")
        if stats:
            total = stats["count"] * stats["mean"]
            if stats["count"] != steps or abs(total - T) > 1e-9 * T:
                res.violation("accepted step sizes do not add up to the time range", case, statistics=stats, steps=steps)
            if stats["min"] < 1e-10 * (1 - 1e-9):
                res.violation("a step smaller than dt_min was taken", case, statistics=stats)
        # reconstruct attempted steps from the stage log
        times = np.array([t for t, _ in eq.log])
        if solver == "runge-kutta":
            if len(times) % 6:
                res.violation(f"RKF45 log has {len(times)} evaluations, not a multiple of 6", case)
            else:
                groups = times.reshape(-1, 6)
                dts = 4 * (groups[:, 1] - groups[:, 0])
                frac = np.array([0, 1 / 4, 3 / 8, 12 / 13, 1, 1 / 2])
                dev = np.abs(groups - (groups[:, :1] + dts[:, None] * frac[None, :])).max()
                if dev > 1e-9 * max(T, 1) or (dts < 1e-10 * (1 - 1e-6)).any():
                    res.violation("RKF45 stage times are not t + {0,1/4,3/8,12/13,1,1/2}*dt or an attempted dt is below dt_min", case, first_groups=groups[:3].tolist())
                res.count("stage_logs_checked")
        if backend == "numba":
            try:
                _, out2, info2 = solve_case(dict(c, backend="numpy"), adaptive=True, tolerance=tol, t_end=t0 + T)
                res.count("backend_pairs_compared")
                if float(np.abs(out2.data - out.data).max()) > 2 * max(steps, info2["solver"]["steps"]) * tol:
                    res.violation("adaptive numpy and numba results differ by more than the tolerance allows", case)
            except Exception as exc:
                res.violation(f"numpy twin raised {type(exc).__name__}: {exc}", case)
        res.case((solver, backend, "adaptive", tol, dt0, T))
        if case_no < 1:
            res.sample({**case, "steps": steps, "error": err, "dt_statistics": stats})
    # scipy solver: end time and loose accuracy
    for k in range(4):
        a = -float(rng.uniform(0.3, 2.0))
        T, t0 = 1.5, float(rng.choice([0.0, 2.0]))
        u0 = np.array([1.0, 2.0])
        c = {"solver": "scipy", "backend": "numpy" if k % 2 else "numba", "a": a, "coeffs": (0, 0, 0, 1), "dt": 0.1, "steps": 0, "t0": t0, "u0": u0}
        case = {"solver": "scipy", "backend": c["backend"], "a": a, "t_range": [t0, t0 + T]}
        try:
            eq, out, info = solve_case(c, t_end=t0 + T)
        except Exception as exc:
            res.violation(f"scipy solve raised {type(exc).__name__}: {str(exc)[:300]}", case)
            continue
        res.seen("solvers_seen", "scipy")
        if info["controller"]["t_final"] != t0 + T:
            res.violation(f"scipy solver ends at {info['controller']['t_final']!r}, requested {t0 + T!r}", case)
        err = float(np.abs(out.data - u0 * math.exp(a * T)).max())
        if err > 2e-2 * float(np.abs(u0).max()):
            res.violation(f"scipy solver error {err:.3g} is far beyond its tolerances", case)
        res.case(("scipy", c["backend"], t0 != 0))


def run_shard(spec: dict) -> ShardResult:
    res = ShardResult(spec)
    rng = np.random.default_rng([spec["seed"], 6, spec["index"]])
    if spec["kind"] == "fixed":
        run_fixed_shard(spec, res, rng)
    else:
        run_adaptive_shard(spec, res, rng)
    return res
