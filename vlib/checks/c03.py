"""C03 — every route to the same operator-with-BC result agrees.

Events: the arrays returned by all public routes for one generated (grid, field, operator,
option, boundary condition):

R1  field.apply_operator / named field methods (default backend)
R2  grid.make_operator(..., backend="numba"): compiled setter + kernel; without ``out``,
    with ``out``, with ``args``
R3  the same on backend="scipy" where registered (uniform Cartesian grids)
R4  set_ghost_cells + make_operator_no_bc per backend  (baseline)
R5  compiled vs interpreted vs numpy-wrapper ghost-cell setters and full-data setters
    (complete padded arrays compared)
R6  laplace only: A*u+b from the sparse-matrix representation used by the Poisson solvers
R7  ("mt" shards) the multi-threaded kernels under thread counts {1,2,3,5,8,16}, chunk sizes
    {0,1,7} and repeated invocations, on red-zoned buffers: bit-identical among schedules and
    equal to the stencil model within round-off

Oracle: agreement within a round-off budget derived from the magnitudes of all stencil terms
(bit-identical where the same compiled code runs: out= vs no out, thread schedules).
"""

from __future__ import annotations

import numpy as np

from .. import gen
from ..models import bc as bcm
from ..models import stencils
from ..monitors import redzone
from ..runner import ShardResult
from .c01 import SYSTEM_OF, operator_options
from .c02 import grid_info, make_field

PROPERTY = "C03"
LEVEL = "exploration"
RULE = (
    "A case is one (grid, operator, option, boundary-condition structure, field) pushed through all "
    "available routes R1-R6; mt cases push one parallel kernel through 18 thread schedules x 3 "
    "repetitions. Distinct = distinct (grid class, num_axes, operator, option, per-side condition "
    "kinds, set of routes available); non-trivial = generic random field and at least one "
    "non-periodic side with a non-zero or inhomogeneous condition, or a periodic axis."
)
ASSUMPTIONS = [
    "a route that raises NotImplementedError, or the scipy backend's RuntimeError for non-uniform spacing, is 'unavailable', not a disagreement",
    "round-off budget: 1024 ulp of the sum of magnitudes of all stencil terms on the padded array (separately compiled code may contract/reassociate differently)",
    "thread schedules are those produced by the OpenMP runtime for the thread counts and chunk sizes tried",
]
REQUIRED = {
    "route_pairs_compared": 600,
    "compiled_operators": 60,
    "matrix_route_compared": 15,
    "scipy_route_compared": 10,
    "setter_pairs_compared": 100,
    "thread_schedules_run": 300,
    "parallel_kernels": 30,
    "thread_counts_seen": 5,
}
EPS = 2.220446049250313e-16
THREADS = [1, 2, 3, 5, 8, 16]
CHUNKS = [0, 1, 7]


def plan(tier: str, seed: int) -> list[dict]:
    from ..models import curvi

    curvi.ensure_cache()
    quick = tier == "quick"
    shards = []
    for _ in range(12 if quick else 48):
        shards.append({"kind": "routes", "mode": "jit", "cases": 7 if quick else 30, "timeout": 1800 if quick else 5000})
    for _ in range(2 if quick else 8):
        shards.append({"kind": "routes", "mode": "nojit", "cases": 40 if quick else 150, "timeout": 1800 if quick else 5000})
    nparts = 4 if quick else 8
    for part in range(nparts):
        shards.append({"kind": "threads", "mode": "mt", "part": part, "parts": nparts, "reps": 3 if quick else 12, "threads": 16, "weight": 4,
                       "timeout": 1800 if quick else 5000})
    shards.append({"kind": "threads_large", "mode": "jit", "threads": 16, "weight": 4, "timeout": 1800, "sizes": "quick" if quick else "thorough"})
    return shards


def budget(gspec, name, opts, padded):
    mag = stencils.apply_model(gspec, name, opts, padded, abs_mode=True)
    if name == "gradient_squared":
        mag = mag * 4
    return 1024 * EPS * mag + 1e-300


def unavailable(exc) -> bool:
    return isinstance(exc, NotImplementedError) or (isinstance(exc, RuntimeError) and "uniform" in str(exc))


def run_routes_shard(spec, res: ShardResult, rng):
    import pde
    from pde.backends import get_backend
    from pde.backends.numba.utils import numba_dict

    nojit = spec["mode"] == "nojit"
    nb_backend = get_backend("numba")
    for case_no in range(spec["cases"]):
        gspec = gen.random_grid_spec(rng, sizes=(2, 3, 4, 5), max_cells=100, tame=True)
        grid = gen.make_grid(gspec)
        info = grid_info(gspec)
        names = [n for n in sorted(nb_backend.get_registered_operators(grid)) if n != "poisson_solver"]
        name = str(rng.choice(names + ["laplace"] * 3))
        opinfo, optlist = operator_options(nb_backend, grid, name)
        opts = optlist[int(rng.integers(len(optlist)))]
        rank = opinfo.rank_in
        dtype = "float64" if rng.random() < 0.8 else "complex128"
        structure = bcm.gen_structure(rng, info, rank)
        if gspec["cls"] == "SphericalSymGrid" and rank > 0:
            # conditions must keep the field inside the admissible (symmetric) subspace
            for ax in structure["axes"]:
                for c in ax.get("sides", []):
                    c.update({"kind": "derivative", "alias": "derivative", "normal": False, "vform": "zero", "v": 0.0})
        if name not in ("divergence", "tensor_divergence"):
            # normal-only conditions leave the tangential components' ghost cells undefined;
            # only divergence-type operators read nothing but the normal component there
            for ax in structure["axes"]:
                for c in ax.get("sides", []):
                    if c["normal"]:
                        c["normal"] = False
                        c["alias"] = bcm.ALIASES[(c["kind"], False)][0]
                        tshape = (grid.dim,) * rank
                        for key in ("v", "beta"):
                            if key in c and isinstance(c[key], np.ndarray):
                                c[key] = float(c[key].flat[0])
                                c["vform" if key == "v" else "bform"] = "const"
        spec_data, fmt = bcm.render_spec(rng, structure, info["axes"], dict(grid.boundary_names))
        needs_t = any(c.get("vform") == "texpr" for ax in structure["axes"] for c in ax.get("sides", []))
        t = float(np.round(rng.uniform(0, 2), 3))
        args = {"t": t} if needs_t else None
        descr = [(ax["periodic"],) if "periodic" in ax else tuple((c["kind"], c["normal"], c["vform"]) for c in ax["sides"]) for ax in structure["axes"]]
        case = {"grid": gspec, "operator": name, "options": opts, "bc_format": fmt, "bc": spec_data, "dtype": dtype, "t": t if needs_t else None}
        f = make_field(rng, grid, rank, dtype)
        f._data_full[...] = stencils.admissible_project(gspec, rank, f._data_full)
        valid = f.data.copy()
        shape_out = (grid.dim,) * opinfo.rank_out + tuple(grid.shape)
        try:
            bcs = grid.get_boundary_conditions(spec_data, rank=rank)
        except Exception as exc:
            res.violation(f"specification rejected: {type(exc).__name__}: {str(exc)[:200]}", case)
            continue
        results: dict[str, np.ndarray] = {}
        errors: dict[str, BaseException] = {}

        def attempt(label, fn):
            try:
                out = fn()
                results[label] = np.array(out, copy=True)
            except Exception as exc:  # judged below
                errors[label] = exc

        # ---- R4 baseline: interpreted ghost cells + raw numba kernel ------------------
        base = make_field(rng, grid, rank, dtype)
        base.data = valid
        base._data_full[...] = padded_sentinel(base, f)  # same sentinels as the setter routes
        try:
            base.set_ghost_cells(spec_data, args=args)
            padded = base._data_full.copy()
            kernel = grid.make_operator_no_bc(name, backend="numba", **opts)
            out0 = np.empty(shape_out, dtype=dtype)
            kernel(padded, out0)
        except Exception as exc:
            res.violation(f"baseline route raised {type(exc).__name__}: {str(exc)[:300]}", case, structure=descr)
            continue
        tol = budget(gspec, name, opts, padded)
        # model sanity (already the subject of C01/C02; here it guards the baseline itself)
        want = stencils.apply_model(gspec, name, opts, padded)
        if (np.abs(out0 - want) > tol).any():
            res.violation("baseline (set_ghost_cells + no-bc kernel) differs from the stencil model", case, structure=descr)
            continue

        # ---- R1 field API --------------------------------------------------------------
        def r1():
            g = f.copy()
            return g.apply_operator(name, bc=spec_data, args=args, **opts).data

        attempt("R1 field.apply_operator", r1)
        method_name = {"laplace": "laplace", "gradient": "gradient", "divergence": "divergence", "gradient_squared": "gradient_squared",
                       "vector_gradient": "gradient", "vector_laplace": "laplace", "tensor_divergence": "divergence"}.get(name)
        if method_name and hasattr(f, method_name):
            attempt(f"R1 field.{method_name}", lambda: getattr(f.copy(), method_name)(bc=spec_data, args=args, **opts).data)
            out_field = f.copy().apply_operator(name, bc=spec_data, args=args, **opts)
            attempt(f"R1 field.{method_name}(out=)", lambda: getattr(f.copy(), method_name)(bc=spec_data, out=out_field.copy(), args=args, **opts).data)

        # ---- R2 compiled operator with BCs ----------------------------------------------
        nb_args = numba_dict(t=t) if needs_t else None
        try:
            op = grid.make_operator(name, bc=spec_data, backend="numba", **opts)
            res.count("compiled_operators")
            attempt("R2 make_operator(numba)", lambda: op(valid.copy(), args=nb_args) if needs_t else op(valid.copy()))

            def r2_out():
                out = np.full(shape_out, np.nan, dtype=dtype)
                ret = op(valid.copy(), out, nb_args) if needs_t else op(valid.copy(), out)
                if ret is not None and not np.array_equal(ret, out, equal_nan=True):
                    raise AssertionError("returned array differs from the `out` array")
                return out

            attempt("R2 make_operator(numba, out=)", r2_out)
            op2 = grid.make_operator(name, bc=bcs, backend="numba", **opts)
            attempt("R2 make_operator(numba, bc instance)", lambda: op2(valid.copy(), args=nb_args) if needs_t else op2(valid.copy()))
        except Exception as exc:
            errors["R2 make_operator(numba)"] = exc

        # ---- R3 scipy backend -----------------------------------------------------------
        sc = get_backend("scipy")
        if name in sc.get_registered_operators(grid) and not nojit:
            sc_opts = {k: v for k, v in opts.items() if k in ("method",)}
            if sc_opts == opts:
                def r3():
                    op3 = grid.make_operator(name, bc=spec_data, backend="scipy", **opts)
                    return op3(valid.copy(), args=args) if needs_t else op3(valid.copy())

                attempt("R3 make_operator(scipy)", r3)

                def r3b():
                    k3 = grid.make_operator_no_bc(name, backend="scipy", **opts)
                    out = np.empty(shape_out, dtype=dtype)
                    k3(padded.copy(), out)
                    return out

                attempt("R4 no-bc kernel (scipy)", r3b)

        # ---- R5 setters ------------------------------------------------------------------
        setter_arrays = {}
        for label, make in (
            ("numba setter", lambda: nb_backend.make_ghost_cell_setter(bcs)),
            ("numpy setter", lambda: get_backend("numpy").make_ghost_cell_setter(bcs)),
        ):
            try:
                g = make_field(rng, grid, rank, dtype)
                g._data_full[...] = padded_sentinel(base, f)
                setter = make()
                a = nb_args if label.startswith("numba") else args
                setter(g._data_full, args=a) if needs_t else setter(g._data_full)
                setter_arrays[label] = g._data_full.copy()
            except Exception as exc:
                errors["R5 " + label] = exc
        for label, make in (
            ("numba full-data setter", lambda: nb_backend.make_full_data_setter(bcs)),
            ("numpy full-data setter", lambda: get_backend("numpy").make_full_data_setter(bcs)),
        ):
            try:
                g = make_field(rng, grid, rank, dtype)
                g._data_full[...] = padded_sentinel(base, f)
                g.data = 0
                setter = make()
                a = nb_args if label.startswith("numba") else args
                setter(g._data_full, valid.copy(), args=a) if needs_t else setter(g._data_full, valid.copy())
                setter_arrays[label] = g._data_full.copy()
            except Exception as exc:
                errors["R5 " + label] = exc
        ref_full = padded_sentinel(base, f, after=padded)
        for label, arr in setter_arrays.items():
            res.count("setter_pairs_compared")
            scale = np.abs(ref_full) + 1
            diff = np.abs(arr - ref_full)
            if not (diff <= 64 * EPS * scale).all():
                k = np.unravel_index(int(np.argmax(diff / scale)), diff.shape)
                res.violation(f"R5 {label}: padded array differs from the interpreted set_ghost_cells", case, index=list(map(int, k)),
                              have=arr[k], want=ref_full[k], structure=descr)

        # ---- R6 sparse matrix ------------------------------------------------------------
        if name == "laplace" and dtype == "float64" and not opts:
            mod = {"UnitGrid": "cartesian", "CartesianGrid": "cartesian", "PolarSymGrid": "polar_sym",
                   "SphericalSymGrid": "spherical_sym", "CylindricalSymGrid": "cylindrical_sym"}[gspec["cls"]]

            def r6():
                import importlib

                m = importlib.import_module(f"pde.backends.scipy.operators.{mod}")
                A, b = m._get_laplace_matrix(bcs)
                y = A.tocsr() @ valid.ravel() + np.asarray(b.todense()).ravel()
                return np.asarray(y).reshape(grid.shape)

            if not needs_t:
                attempt("R6 sparse matrix", r6)

        # ---- judge -----------------------------------------------------------------------
        for label, exc in errors.items():
            if unavailable(exc):
                res.count("routes_unavailable")
                res.seen("unavailable", f"{label.split(' ')[0]}: {type(exc).__name__}")
                continue
            res.violation(f"{label} raised {type(exc).__name__}: {str(exc)[:300]} where the baseline route returned numbers", case, structure=descr)
        for label, arr in results.items():
            res.count("route_pairs_compared")
            if label.startswith("R6"):
                res.count("matrix_route_compared")
            if "scipy" in label:
                res.count("scipy_route_compared")
            if arr.shape != out0.shape:
                res.violation(f"{label}: result has shape {arr.shape}, baseline {out0.shape}", case)
                continue
            diff = np.abs(arr - out0)
            if not (diff <= tol).all():
                k = np.unravel_index(int(np.argmax(diff - tol)), diff.shape)
                res.violation(f"{label} disagrees with set_ghost_cells + no-bc kernel", case, index=list(map(int, k)), have=arr[k], baseline=out0[k],
                              tolerance=float(tol[k]), structure=descr)
        a, b = results.get("R2 make_operator(numba)"), results.get("R2 make_operator(numba, out=)")
        if a is not None and b is not None and not np.array_equal(a, b, equal_nan=True):
            res.violation("R2: result with `out` is not bit-identical to the result without `out`", case)
        nontrivial = any("periodic" in ax or any(c["vform"] != "zero" for c in ax["sides"]) for ax in structure["axes"])
        res.case((gspec["cls"], len(info["shape"]), name, sorted(opts.items()), descr, sorted(results), spec["mode"]), nontrivial=nontrivial)
        res.seen("operators", name)
        if case_no < 2:
            res.sample({**case, "routes_compared": sorted(results), "routes_unavailable": sorted(errors)})


def padded_sentinel(base, f, after=None):
    """Padded array with the valid data of the case and deterministic sentinels in all ghost
    cells; with `after`, ghost faces are taken from the interpreted result."""
    full = np.empty_like(base._data_full)
    nd = base.grid.num_axes
    full[...] = 7000.0 + np.arange(full.size).reshape(full.shape)
    valid_idx = (slice(None),) * (full.ndim - nd) + (slice(1, -1),) * nd
    full[valid_idx] = base.data
    if after is not None:
        for axis in range(nd):
            for pos in (0, -1):
                idx = [slice(None)] * (full.ndim - nd) + [slice(1, -1)] * nd
                idx[full.ndim - nd + axis] = pos
                full[tuple(idx)] = after[tuple(idx)]
    return full


# --------------------------------------------------------------------------------------
# thread schedules


def run_thread_case(grid, gspec, name, opts, rng, res, case, reps=3):
    import numba as nb
    from pde.backends import get_backend

    be = get_backend("numba")
    opinfo = be.get_operator_info(grid, name)
    shape_in = (grid.dim,) * opinfo.rank_in + tuple(s + 2 for s in grid.shape)
    shape_out = (grid.dim,) * opinfo.rank_out + tuple(grid.shape)
    data = stencils.admissible_project(gspec, opinfo.rank_in, rng.uniform(-1, 1, size=shape_in))
    kernel = grid.make_operator_no_bc(name, backend="numba", **opts)
    want = stencils.apply_model(gspec, name, opts, data)
    tol = budget(gspec, name, opts, data)
    first = None
    max_threads = nb.config.NUMBA_NUM_THREADS
    for nthreads in THREADS:
        if nthreads > max_threads:
            continue
        nb.set_num_threads(nthreads)
        for chunk in CHUNKS:
            nb.set_parallel_chunksize(chunk)
            for rep in range(reps):
                out, problems = redzone.call_kernel(kernel, data, shape_out)
                res.count("thread_schedules_run")
                res.seen("thread_counts_seen", nthreads)
                for p in problems:
                    res.violation(f"red zone ({nthreads} threads, chunk {chunk}): {p}", case)
                if first is None:
                    first = out
                    if (np.abs(out - want) > tol).any():
                        res.violation("parallel kernel differs from the stencil model", case, threads=nthreads)
                elif not np.array_equal(first, out):
                    k = np.unravel_index(int(np.argmax(np.abs(first - out))), out.shape)
                    res.violation(
                        f"result with {nthreads} threads (chunk size {chunk}, repetition {rep}) is not bit-identical to the single-thread result",
                        case, index=list(map(int, k)), one_thread=first[k], now=out[k],
                    )
                    nb.set_parallel_chunksize(0)
                    return
    nb.set_parallel_chunksize(0)
    nb.set_num_threads(max_threads)
    is_parallel = False
    try:
        is_parallel = bool(getattr(kernel, "targetoptions", {}).get("parallel", False))
    except Exception:
        pass
    if is_parallel:
        res.count("parallel_kernels")
    res.seen("parallel_flag", f"{gspec['cls']}/{name}: parallel={is_parallel}")


PARALLEL_OPS = ["laplace", "gradient", "divergence", "gradient_squared", "vector_gradient", "vector_laplace", "tensor_divergence"]


def run_threads_shard(spec, res: ShardResult, rng):
    """All kernel families that use prange, on grids large enough for races to manifest."""
    from pde.backends import get_backend

    be = get_backend("numba")
    n1, n2, n3 = (int(x) for x in rng.integers(40, 90, size=3))
    m1, m2, m3 = (int(x) for x in rng.integers(9, 20, size=3))
    grids = [
        {"cls": "CartesianGrid", "bounds": [[0, 1.0], [-0.5, 0.8]], "shape": [n1, n2], "periodic": [False, False]},
        {"cls": "CartesianGrid", "bounds": [[0, 1.0], [-0.5, 0.8], [0.2, 1.1]], "shape": [m1, m2, m3], "periodic": [False, False, False]},
        {"cls": "CylindricalSymGrid", "radius": 2.0, "bounds_z": [-0.5, 1.0], "shape": [n3, n1], "periodic_z": False},
        {"cls": "CylindricalSymGrid", "radius": [0.7, 2.0], "bounds_z": [-0.5, 1.0], "shape": [n2, n3], "periodic_z": False},
    ]
    todo = []
    for gspec in grids:
        grid = gen.make_grid(gspec)
        avail = be.get_registered_operators(grid)
        for name in PARALLEL_OPS:
            if name in avail:
                _, optlist = operator_options(be, grid, name)
                for opts in optlist:
                    todo.append((gspec, name, opts))
    part, nparts = spec.get("part", 0), spec.get("parts", 1)
    todo = [t for i, t in enumerate(todo) if i % nparts == part]
    for case_no, (gspec, name, opts) in enumerate(todo):
        grid = gen.make_grid(gspec)
        case = {"grid": gspec, "operator": name, "options": opts, "config": "multithreading=always, threshold=1"}
        try:
            run_thread_case(grid, gspec, name, opts, rng, res, case, reps=spec.get("reps", 3))
        except Exception as exc:
            res.violation(f"parallel kernel raised {type(exc).__name__}: {str(exc)[:300]}", case)
        res.case((gspec["cls"], len(gen.grid_shape(gspec)), name, sorted(opts.items()), "mt"))
        if case_no < 1:
            res.sample({**case, "threads": THREADS, "chunk_sizes": CHUNKS})


def run_threads_large_shard(spec, res: ShardResult, rng):
    """Genuinely large grids at the default multithreading threshold."""
    specs = [
        {"cls": "CartesianGrid", "bounds": [[0, 1.0], [0, 1.3]], "shape": [300, 280], "periodic": [False, True]},
        {"cls": "CylindricalSymGrid", "radius": 2.0, "bounds_z": [0, 1.5], "shape": [260, 270], "periodic_z": False},
    ]
    if spec.get("sizes") == "thorough":
        specs.append({"cls": "CartesianGrid", "bounds": [[0, 1.0], [0, 1.3], [0, 0.8]], "shape": [48, 44, 40], "periodic": [False, False, True]})
        specs.append({"cls": "UnitGrid", "shape": [300, 300], "periodic": [True, True]})
    ops = ["laplace", "gradient", "divergence", "vector_laplace"]
    for gspec in specs:
        grid = gen.make_grid(gspec)
        for name in ops if spec.get("sizes") == "thorough" else ops[:2]:
            case = {"grid": gspec, "operator": name, "options": {}, "config": "default multithreading threshold"}
            try:
                run_thread_case(grid, gspec, name, {}, rng, res, case, reps=2)
            except Exception as exc:
                res.violation(f"parallel kernel raised {type(exc).__name__}: {str(exc)[:300]}", case)
            res.case((gspec["cls"], tuple(gspec["shape"]), name, "large"))


def run_shard(spec: dict) -> ShardResult:
    res = ShardResult(spec)
    rng = np.random.default_rng([spec["seed"], 3, spec["index"]])
    if spec["kind"] == "routes":
        run_routes_shard(spec, res, rng)
    elif spec["kind"] == "threads":
        run_threads_shard(spec, res, rng)
    else:
        run_threads_large_shard(spec, res, rng)
    return res
