"""C14 — saving and restoring grids and fields loses nothing.

Events: objects reconstructed through every public route (state dict, JSON state, copy,
deepcopy, pickle, serialised attributes + data, FieldCollection.from_data, storage info).
Oracle: attribute-by-attribute comparison with the original (class, bounds incl. inner
radius, shape, periodicity, axes, coordinates, cell volumes, labels, dtype, data bytes) and
with the *spec* the grid was generated from (independent of the package).
"""

from __future__ import annotations

import copy
import pickle

import numpy as np

from .. import gen
from ..runner import ShardResult

PROPERTY = "C14"
LEVEL = "exploration"
RULE = (
    "A case is one (object, reconstruction route). Objects: generated grids of all five classes "
    "(holes, periodic flags, negative/tiny/huge bounds, 1-cell axes, float64-scalar parameters), "
    "scalar/vector/tensor fields of dtype float32/float64/complex128 with None/ASCII/unicode labels, "
    "and collections of 1-4 such fields. Distinct = distinct (grid class, hole, periodic pattern, "
    "num cells pattern, object kind, rank tuple, dtype, label kind, route); non-trivial = grid has "
    "asymmetric bounds or a hole or a periodic axis, or the object carries data."
)
ASSUMPTIONS = [
    "constructor parameters are Python numbers or numpy float64 scalars; numpy integer/bool scalars make json.dumps raise TypeError for some grid classes (an error, not a silent loss) and are outside the judged space",
    "equality of reconstructed floats is exact (JSON repr round-trips doubles); cell volumes compared at 4 ulp",
]
REQUIRED = {
    "grid_roundtrips": 300,
    "field_roundtrips": 200,
    "collection_roundtrips": 100,
    "from_data_roundtrips": 60,
    "storage_roundtrips": 40,
    "annular_cylinders": 5,
    "tiny_inner_radii": 30,
    "symmetric_grid_vector_collections": 5,
}


def plan(tier: str, seed: int) -> list[dict]:
    n = 16 if tier == "quick" else 48
    cases = 300 if tier == "quick" else 2500
    return [{"kind": "roundtrip", "mode": "nojit", "cases": cases, "timeout": 900 if tier == "quick" else 3000} for _ in range(n)]


# --------------------------------------------------------------------------------------


def grid_facts(g) -> dict:
    return {
        "class": type(g).__name__,
        "axes_bounds": tuple((float(a), float(b)) for a, b in g.axes_bounds),
        "shape": tuple(int(s) for s in g.shape),
        "periodic": [bool(p) for p in g.periodic],
        "axes": list(g.axes),
        "dim": g.dim,
        "num_axes": g.num_axes,
        "discretization": tuple(float(d) for d in g.discretization),
        "volume": float(g.volume),
    }


def compare_grids(g, g2, res: ShardResult, case) -> bool:
    """Compare the reconstruction `g2` with the original `g`."""
    f1, f2 = grid_facts(g), grid_facts(g2)
    for key in f1:
        if f1[key] != f2[key]:
            mech = None
            res.violation(f"grid attribute {key} differs after {case['route']}: {f1[key]!r} -> {f2[key]!r}", case,
                          mechanism=mech, original=f1, restored=f2)
            return False
    for a, b in zip(g.axes_coords, g2.axes_coords):
        if not np.array_equal(a, b):
            res.violation(f"axes_coords differ after {case['route']}", case)
            return False
    v1 = np.broadcast_arrays(*g.cell_volume_data)[0] if False else g.cell_volumes
    v2 = g2.cell_volumes
    if v1.shape != v2.shape or not np.allclose(v1, v2, rtol=1e-15, atol=0):
        res.violation(f"cell volumes differ after {case['route']}", case)
        return False
    if not (g == g2) or (g != g2):
        res.violation(f"restored grid does not compare equal after {case['route']}", case, original=f1, restored=f2)
        return False
    return True


def check_grid_against_spec(g, spec, res: ShardResult) -> None:
    """The grid itself must reflect the spec it was built from (independent anchor)."""
    bounds = gen.grid_bounds(spec)
    have = [(float(a), float(b)) for a, b in g.axes_bounds]
    scale = max(1.0, max(abs(x) for ab in bounds for x in ab))
    close = len(have) == len(bounds) and all(
        abs(h[0] - b[0]) <= 1e-13 * scale and abs(h[1] - b[1]) <= 1e-13 * scale for h, b in zip(have, bounds)
    )  # CartesianGrid keeps (position, size) and re-adds them: bounds may move by a few ulp
    if not close or tuple(g.shape) != gen.grid_shape(spec) or [bool(p) for p in g.periodic] != gen.grid_periodic(spec):
        res.violation("constructed grid does not reflect its parameters", {"grid": spec}, have=have, want=bounds)


def grid_routes(g):
    from pde.grids.base import GridBase

    yield "from_state(state_serialized)", lambda: GridBase.from_state(g.state_serialized)
    yield "cls.from_state(state)", lambda: type(g).from_state(dict(g.state))
    yield "GridBase.from_state(state+class)", lambda: GridBase.from_state({**g.state, "class": type(g).__name__})
    yield "copy()", lambda: g.copy()
    yield "copy.copy", lambda: copy.copy(g)
    yield "copy.deepcopy", lambda: copy.deepcopy(g)
    yield "pickle", lambda: pickle.loads(pickle.dumps(g))
    yield "pickle(protocol 2)", lambda: pickle.loads(pickle.dumps(g, protocol=2))
    yield "from_state(json of restored)", lambda: GridBase.from_state(GridBase.from_state(g.state_serialized).state_serialized)


def numpyfy(spec: dict, rng) -> dict:
    """Replace some float parameters by numpy float64 scalars (still JSON-able floats)."""
    spec = copy.deepcopy(spec)
    if "bounds" in spec and rng.random() < 0.5:
        spec["bounds"] = [[np.float64(a), np.float64(b)] for a, b in spec["bounds"]]
    return spec


def random_field(rng, grid, rank=None, dtype=None, label="auto"):
    import pde

    rank = int(rng.integers(3)) if rank is None else rank
    dtype = rng.choice(["float64", "float32", "complex128"]) if dtype is None else dtype
    cls = [pde.ScalarField, pde.VectorField, pde.Tensor2Field][rank]
    if label == "auto":
        label = [None, "c", "φ₁ field", "a b", "µ"][int(rng.integers(5))]
    shape = (grid.dim,) * rank + tuple(grid.shape)
    data = rng.uniform(-1, 1, size=shape)
    if dtype == "complex128":
        data = data + 1j * rng.uniform(-1, 1, size=shape)
    f = cls(grid, data=data.astype(dtype), label=label, dtype=dtype)
    # ghost cells hold arbitrary but defined numbers
    full = rng.uniform(-9, 9, size=f._data_full.shape).astype(dtype)
    valid = f.data.copy()
    f._data_full[...] = full
    f.data = valid
    return f


def compare_fields(f, f2, res: ShardResult, case, check_label=True) -> bool:
    if type(f) is not type(f2):
        res.violation(f"class changed {type(f).__name__} -> {type(f2).__name__}", case)
        return False
    if f2.grid is not f.grid:
        if grid_facts(f.grid) != grid_facts(f2.grid):
            res.violation("field's grid changed", case, original=grid_facts(f.grid), restored=grid_facts(f2.grid))
            return False
    if check_label and f.label != f2.label:
        res.violation(f"label changed {f.label!r} -> {f2.label!r}", case)
        return False
    if f.dtype != f2.dtype or f.data.dtype != f2.data.dtype:
        res.violation(f"dtype changed {f.dtype} -> {f2.dtype}", case)
        return False
    if f.data.shape != f2.data.shape or f.data.tobytes() != f2.data.tobytes():
        res.violation("data changed", case, max_abs_diff=float(np.abs(f.data - f2.data).max()) if f.data.shape == f2.data.shape else None)
        return False
    if not (f == f2):
        res.violation("restored field does not compare equal", case)
        return False
    if np.shares_memory(f.data, f2.data):
        res.violation("restored field aliases the original's data", case)
        return False
    return True


def field_routes(f):
    from pde.fields.base import FieldBase

    yield "FieldBase.from_state(unserialize(attributes_serialized), data)", lambda: FieldBase.from_state(
        FieldBase.unserialize_attributes(f.attributes_serialized), data=f.data.copy())
    yield "cls.from_state(attributes, data)", lambda: type(f).from_state(dict(f.attributes), data=f.data.copy())
    yield "copy()", lambda: f.copy()
    yield "copy.deepcopy", lambda: copy.deepcopy(f)
    yield "pickle", lambda: pickle.loads(pickle.dumps(f))


def compare_collections(fc, fc2, res, case) -> bool:
    if type(fc) is not type(fc2) or len(fc) != len(fc2):
        res.violation("collection class or length changed", case)
        return False
    if fc.label != fc2.label or list(fc.labels) != list(fc2.labels):
        res.violation(f"collection labels changed {fc.label!r}/{list(fc.labels)} -> {fc2.label!r}/{list(fc2.labels)}", case)
        return False
    if fc.data.shape != fc2.data.shape or fc.data.dtype != fc2.data.dtype or fc.data.tobytes() != fc2.data.tobytes():
        res.violation("collection data changed", case)
        return False
    for i, (a, b) in enumerate(zip(fc, fc2)):
        if not compare_fields(a, b, res, {**case, "member": i}):
            return False
    return True


def run_shard(spec: dict) -> ShardResult:
    import pde
    from pde.fields.base import FieldBase

    res = ShardResult(spec)
    rng = np.random.default_rng([spec["seed"], 14, spec["index"]])
    for case_no in range(spec["cases"]):
        gspec = gen.random_grid_spec(rng, sizes=(1, 2, 3, 4, 5))
        if isinstance(gspec.get("radius"), list) and rng.random() < 0.2:
            # a hole so small that any tolerance-based comparison with zero would lose it
            gspec["radius"] = [float(rng.choice([1e-300, 1e-12, 5e-9, 2e-8, 1e-6])), gspec["radius"][1]]
            res.count("tiny_inner_radii")
        try:
            grid = gen.make_grid(numpyfy(gspec, rng))
        except Exception as exc:
            res.violation(f"grid construction raised {type(exc).__name__}: {exc}", {"grid": gspec})
            continue
        check_grid_against_spec(grid, gspec, res)
        hole = gspec["cls"] != "UnitGrid" and gspec["cls"] != "CartesianGrid" and isinstance(gspec["radius"], list)
        if hole and gspec["cls"] == "CylindricalSymGrid":
            res.count("annular_cylinders")
        gkey = (gspec["cls"], hole, tuple(gen.grid_periodic(gspec)), tuple(min(s, 2) for s in gen.grid_shape(gspec)))
        nontrivial_grid = hole or any(gen.grid_periodic(gspec)) or any(a != 0 for a, _ in gen.grid_bounds(gspec))
        # ---- grids ------------------------------------------------------------------
        for route, fn in grid_routes(grid):
            case = {"grid": gspec, "route": route}
            try:
                g2 = fn()
            except Exception as exc:
                res.violation(f"{route} raised {type(exc).__name__}: {exc}", case)
                continue
            compare_grids(grid, g2, res, case)
            res.count("grid_roundtrips")
            res.case(("grid", gkey, route), nontrivial=nontrivial_grid)
        if case_no == 0:
            res.sample({"grid": gspec, "state_serialized": grid.state_serialized})

        # ---- single fields ----------------------------------------------------------
        f = random_field(rng, grid)
        lkind = "none" if f.label is None else ("ascii" if f.label.isascii() else "unicode")
        for route, fn in field_routes(f):
            case = {"grid": gspec, "field": type(f).__name__, "dtype": str(f.dtype), "label": f.label, "route": route}
            try:
                f2 = fn()
            except Exception as exc:
                res.violation(f"{route} raised {type(exc).__name__}: {exc}", case)
                continue
            compare_fields(f, f2, res, case)
            res.count("field_roundtrips")
            res.case(("field", gkey, f.rank, str(f.dtype), lkind, route))

        # ---- collections ------------------------------------------------------------
        n = int(rng.integers(1, 5))
        dtype = str(rng.choice(["float64", "float64", "float32", "complex128"]))
        members = [random_field(rng, grid, dtype=dtype) for _ in range(n)]
        ranks = tuple(m.rank for m in members)
        clabel = [None, "state", "ψ"][int(rng.integers(3))]
        fc = pde.FieldCollection(members, label=clabel)
        if grid.dim != grid.num_axes and any(r > 0 for r in ranks):
            res.count("symmetric_grid_vector_collections")
        routes = [
            ("FieldBase.from_state(unserialize(attributes_serialized), data)",
             lambda: FieldBase.from_state(FieldBase.unserialize_attributes(fc.attributes_serialized), data=fc.data.copy())),
            ("FieldCollection.from_state(attributes, data)", lambda: pde.FieldCollection.from_state(dict(fc.attributes), data=fc.data.copy())),
            ("copy()", lambda: fc.copy()),
            ("copy.deepcopy", lambda: copy.deepcopy(fc)),
            ("pickle", lambda: pickle.loads(pickle.dumps(fc))),
        ]
        for route, fn in routes:
            case = {"grid": gspec, "collection_ranks": ranks, "dtype": dtype, "labels": list(fc.labels), "route": route}
            try:
                fc2 = fn()
            except Exception as exc:
                res.violation(f"{route} raised {type(exc).__name__}: {exc}", case)
                continue
            compare_collections(fc, fc2, res, case)
            res.count("collection_roundtrips")
            res.case(("collection", gkey, ranks, dtype, route))
        if case_no == 1:
            res.sample({"grid": gspec, "collection_ranks": ranks, "attributes_serialized": {k: str(v)[:120] for k, v in fc.attributes_serialized.items()}})

        # ---- from_data (flat array -> components) -----------------------------------
        classes = [type(m) for m in members]
        for with_ghost, give_dtype in ((True, True), (False, True), (True, False), (False, False)):
            flat = (fc._data_full if with_ghost else fc.data).copy()
            case = {"grid": gspec, "collection_ranks": ranks, "dtype": dtype, "route": f"from_data(with_ghost_cells={with_ghost}{', dtype given' if give_dtype else ''})"}
            kw = {"dtype": dtype} if give_dtype else {}  # without dtype the data array decides
            try:
                fc3 = pde.FieldCollection.from_data(classes, grid, flat, with_ghost_cells=with_ghost, labels=list(fc.labels), **kw)
            except Exception as exc:
                res.violation(f"from_data raised {type(exc).__name__}: {exc}", case)
                continue
            ok = len(fc3) == len(fc)
            for i, (a, b) in enumerate(zip(fc, fc3)):
                if type(a) is not type(b) or a.data.shape != b.data.shape or not np.array_equal(a.data, b.data):
                    res.violation(f"from_data: member {i} ({type(a).__name__}) not reproduced", case)
                    ok = False
                    break
                if with_ghost and not np.array_equal(a._data_full, b._data_full):
                    res.violation(f"from_data: ghost cells of member {i} not reproduced", case)
                    ok = False
                    break
            if ok and not np.array_equal(fc3.data, fc.data):
                res.violation("from_data: collection data differs", case)
            res.count("from_data_roundtrips")
            res.case(("from_data", gkey, ranks, dtype, with_ghost, give_dtype))

        # ---- storage info round trip ------------------------------------------------
        if case_no % 2 == 0:
            for obj, kind in ((f, "field"), (fc, "collection")):
                case = {"grid": gspec, "object": kind, "route": "MemoryStorage info['field_attributes'] -> _init_field"}
                try:
                    st = pde.MemoryStorage()
                    st.start_writing(obj)
                    st.append(obj, 0.5)
                    st.end_writing()
                    st2 = pde.MemoryStorage(times=list(st.times), data=[d.copy() for d in st.data], info=copy.deepcopy(dict(st.info)))
                    back = st2[0]
                except Exception as exc:
                    res.violation(f"storage round trip raised {type(exc).__name__}: {exc}", case)
                    continue
                if kind == "field":
                    compare_fields(obj, back, res, case)
                else:
                    compare_collections(obj, back, res, case)
                res.count("storage_roundtrips")
                res.case(("storage", gkey, kind, ranks if kind == "collection" else f.rank))
    return res
