"""C15 — field objects share or isolate memory exactly as documented.

Events: random histories of constructions, copies, collection building (with/without copying),
slicing, append, member access, component views, arithmetic, in-place operations, ``data``
assignment, operators and products.  After *every* operation the monitor (i) compares
``np.shares_memory`` of all pairs of live handles with an alias model, (ii) performs write
probes — a unique value is written through one handle's public ``data`` and must appear in
exactly the handles (and at exactly the component/cell) the model predicts —, (iii) checks
that operands of binary operations are byte-identical afterwards and that in-place operations
change valid cells only (ghost cells and unrelated handles bit-unchanged), (iv) evaluates
structural invariants (``data`` is the interior view of the padded array; collection slices
tile its first axis).

Alias model: every handle views a list of flat components of a *buffer*; two handles alias iff
they view the same buffer and share a component.  A collection owns a buffer laid out as
"fields in order, tensor components row-major"; its members and their component views view the
corresponding components; copy(), slicing, append, arithmetic, operators create new buffers.
"""

from __future__ import annotations

import itertools

import numpy as np

from ..runner import ShardResult

PROPERTY = "C15"
LEVEL = "exploration"
RULE = (
    "A case is one history of 8-30 operations on up to 14 live handles over one grid (unit/"
    "Cartesian/polar/cylindrical) with ranks 0-2 and float/complex data. Distinct = distinct "
    "sequence of operation kinds; non-trivial = the history contains at least one collection with "
    "a vector or tensor member, one component view or member access, and one write (in-place "
    "operation, data assignment or write probe hit) through an aliased handle."
)
ASSUMPTIONS = [
    "fields handed to FieldCollection(..., copy_fields=False) are free (not members of another live collection, not component views): linking one field into two collections is documented as impossible",
    "operators impose boundary conditions on their operand (ghost cells may change); only the operand's valid data must stay unchanged",
]
REQUIRED = {
    "operations": 8000,
    "pair_alias_checks": 100000,
    "write_probes": 8000,
    "probe_hits_on_aliases": 2000,
    "inplace_ops_checked": 500,
    "binary_ops_checked": 500,
    "collections_built": 800,
    "component_views": 400,
    "invariants_checked": 20000,
    "appends_of_collections": 100,
    "inplace_kinds_seen": 12,
    "collections_with_repeated_field": 100,
    "collections_from_mappings": 200,
}
SENT = 31337.25


def plan(tier: str, seed: int) -> list[dict]:
    quick = tier == "quick"
    return [{"kind": "histories", "mode": "nojit" if i % 4 else "jit", "cases": 250 if quick else 1500, "timeout": 1500 if quick else 4000} for i in range(16 if quick else 48)]


class Handle:
    def __init__(self, obj, buffer, comps, kind, free=True):
        self.obj, self.buffer, self.comps, self.kind, self.free = obj, buffer, list(comps), kind, free
        self.members: list = []  # for collections: member handles


class World:
    def __init__(self, rng, res, log):
        self.rng, self.res, self.log = rng, res, log
        self.handles: list[Handle] = []
        self._next = itertools.count()

    def new_buffer(self):
        return next(self._next)

    def add(self, obj, buffer, comps, kind, free=True):
        h = Handle(obj, buffer, comps, kind, free)
        self.handles.append(h)
        return h

    def flat(self, h):
        """Padded data with flattened component axis: (ncomp, *full_shape)."""
        return h.obj._data_flat

    def valid_flat(self, h):
        nd = h.obj.grid.num_axes
        return self.flat(h)[(slice(None), *(slice(1, -1),) * nd)]


def ncomp(obj):
    return int(np.prod(obj.data.shape[: obj.data.ndim - obj.grid.num_axes])) if obj.data.ndim > obj.grid.num_axes else 1


def check_invariants(world, fail):
    for h in world.handles:
        o = h.obj
        nd = o.grid.num_axes
        valid = o._data_full[(Ellipsis, *(slice(1, -1),) * nd)]
        world.res.count("invariants_checked")
        if o.data.shape != valid.shape or o.data.__array_interface__["data"][0] != valid.__array_interface__["data"][0] or o.data.strides != valid.strides:
            return fail(f"`data` of a {type(o).__name__} is not the interior view of its padded array")
        if h.kind == "collection":
            pos = 0
            for sl in o._slices:
                if sl.start != pos or sl.stop <= sl.start:
                    return fail("collection slices do not tile the first axis of its data")
                pos = sl.stop
            if pos != o._data_full.shape[0] or len(o._slices) != len(o.fields):
                return fail("collection slices do not cover its data")
    return True


def check_aliasing(world, fail):
    hs = world.handles
    for a, b in itertools.combinations(hs, 2):
        world.res.count("pair_alias_checks")
        want = a.buffer == b.buffer and bool(set(a.comps) & set(b.comps))
        have = bool(np.shares_memory(a.obj._data_full, b.obj._data_full))
        if want != have:
            return fail(
                f"{describe(a)} and {describe(b)} {'share' if have else 'do not share'} memory, "
                f"the documented aliasing says they {'do' if want else 'do not'}"
            )
    return True


def describe(h):
    return f"{h.kind}#{id(h) % 10000}({type(h.obj).__name__}, buffer {h.buffer}, comps {h.comps[:4]}{'...' if len(h.comps) > 4 else ''})"


def write_probe(world, fail):
    """Write a sentinel through one handle; exactly the predicted handles must see it."""
    rng = world.rng
    hs = world.handles
    h = hs[int(rng.integers(len(hs)))]
    nd = h.obj.grid.num_axes
    k = int(rng.integers(len(h.comps)))
    cell = tuple(int(rng.integers(n)) for n in h.obj.grid.shape)
    before = {id(x): x.obj._data_full.copy() for x in hs}
    tshape = h.obj.data.shape[: h.obj.data.ndim - nd]
    idx = (np.unravel_index(k, tshape) if tshape else ()) + cell
    old = h.obj.data[idx]
    h.obj.data[idx] = SENT
    world.res.count("write_probes")
    target = h.comps[k]
    ok = True
    for x in hs:
        now = x.obj._data_full
        was = before[id(x)]
        expect = was.copy()
        if x.buffer == h.buffer and target in x.comps:
            kk = x.comps.index(target)
            xt = x.obj.data.shape[: x.obj.data.ndim - nd]
            full_idx = (np.unravel_index(kk, xt) if xt else ()) + tuple(c + 1 for c in cell)
            expect[full_idx] = SENT
            if x is not h:
                world.res.count("probe_hits_on_aliases")
        same = (now == expect) | (np.isnan(now) & np.isnan(expect))
        if not same.all():
            where = tuple(int(i) for i in np.argwhere(~same)[0])
            ok = False
            seen = bool(now[where] == SENT)
            fail(
                f"write through {describe(h)} component {k} cell {cell}: {describe(x)} "
                + ("shows the written value although it must not alias" if seen else "does not show the written value at the position the layout prescribes")
                + f" (index {where})"
            )
            break
    h.obj.data[idx] = old
    return ok


def run_history(rng, res: ShardResult, hist_no: int):
    import pde

    grids = [pde.UnitGrid([3, 2]), pde.CartesianGrid([[0, 1.5]], 4, periodic=True), pde.PolarSymGrid(2.0, 3), pde.CylindricalSymGrid(1.5, (0, 1), (2, 3))]
    grid = grids[int(rng.integers(len(grids)))]
    dim = grid.dim
    log: list = [("grid", type(grid).__name__)]
    failed = []

    def fail(msg):
        res.violation(msg, {"history": log})
        failed.append(msg)
        return False

    world = World(rng, res, log)

    def new_field(rank=None, complex_=False):
        rank = int(rng.integers(3)) if rank is None else rank
        cls = [pde.ScalarField, pde.VectorField, pde.Tensor2Field][rank]
        f = cls(grid, dtype=complex if complex_ else float)
        f._data_full[...] = rng.uniform(-1, 1, size=f._data_full.shape)
        n = dim**rank
        return world.add(f, world.new_buffer(), range(n), "field")

    def register_result(obj):
        """A result object: must live in fresh memory."""
        if isinstance(obj, pde.FieldCollection):
            return register_collection(obj, fresh=True)
        return world.add(obj, world.new_buffer(), range(ncomp(obj)), "field")

    def register_collection(fc, fresh, member_handles=None):
        buf = world.new_buffer()
        total = fc._data_full.shape[0]
        hc = world.add(fc, buf, range(total), "collection", free=False)
        for i, member in enumerate(fc.fields):
            sl = fc._slices[i]
            comps = list(range(sl.start, sl.stop))
            if member_handles is not None and member_handles[i] is not None:
                mh = member_handles[i]
                mh.buffer, mh.comps, mh.free = buf, comps, False
                # component views taken earlier keep viewing the old memory
            else:
                mh = world.add(member, buf, comps, "member", free=False)
            hc.members.append(mh)
        res.count("collections_built")
        return hc

    for _ in range(2):
        new_field()
    n_ops = int(rng.integers(8, 31))
    kinds_seen = set()
    ops = ["new", "copy", "collect_link", "collect_copy", "slice", "append", "view", "arith", "inplace", "assign", "operator", "product", "setitem", "unary"]
    for step in range(n_ops):
        if len(world.handles) > 14:
            # drop handles (objects stay alive elsewhere; the model simply stops watching them)
            keep = set(rng.choice(len(world.handles), size=9, replace=False).tolist())
            world.handles = [h for i, h in enumerate(world.handles) if i in keep or h.kind == "collection"][:14]
        op = str(rng.choice(ops))
        res.count("operations")
        fields = [h for h in world.handles if h.kind != "collection"]
        colls = [h for h in world.handles if h.kind == "collection"]
        try:
            if op == "new":
                new_field(complex_=rng.random() < 0.2)
                log.append(("new field",))
            elif op == "copy":
                h = world.handles[int(rng.integers(len(world.handles)))]
                c = h.obj.copy()
                log.append(("copy", describe(h)))
                register_result(c)
            elif op in ("collect_link", "collect_copy"):
                link = op == "collect_link"
                pool = [h for h in fields if (h.free and h.kind == "field") or not link]
                if not pool:
                    continue
                k = int(rng.integers(1, min(3, len(pool)) + 1))
                chosen = [pool[i] for i in rng.choice(len(pool), size=k, replace=False)]
                # input as list or as mapping {label: field}; the same field object may be given twice, in
                # which case the documentation promises copies ("always copied if some fields are identical")
                repeated = rng.random() < 0.2
                if repeated:
                    chosen = chosen + [chosen[0]]
                    res.count("collections_with_repeated_field")
                as_mapping = rng.random() < 0.4
                keys = [f"k{i}" for i in range(len(chosen))]
                arg = dict(zip(keys, (h.obj for h in chosen))) if as_mapping else [h.obj for h in chosen]
                fc = pde.FieldCollection(arg, copy_fields=not link)
                log.append(("FieldCollection", "mapping" if as_mapping else "list", "repeated field" if repeated else "", "copy_fields=" + str(not link), [describe(h) for h in chosen]))
                if as_mapping:
                    res.count("collections_from_mappings")
                    if list(fc.labels) != keys:
                        fail(f"collection built from a mapping has labels {list(fc.labels)}, keys were {keys}")
                linked = link and not repeated
                register_collection(fc, fresh=not linked, member_handles=chosen if linked else None)
            elif op == "slice":
                if not colls:
                    continue
                hc = colls[int(rng.integers(len(colls)))]
                n = len(hc.obj)
                a = int(rng.integers(n))
                b = int(rng.integers(a + 1, n + 1))
                fc = hc.obj[a:b]
                log.append(("slice", describe(hc), a, b))
                register_collection(fc, fresh=True)
            elif op == "append":
                if not colls or not fields:
                    continue
                hc = colls[int(rng.integers(len(colls)))]
                # one or two arguments, each a field or a whole collection (possibly hc itself)
                args = []
                for _ in range(int(rng.integers(1, 3))):
                    src = colls if rng.random() < 0.4 else fields
                    args.append(src[int(rng.integers(len(src)))])
                fc = hc.obj.append(*[h.obj for h in args])
                log.append(("append", describe(hc), [describe(h) for h in args]))
                if any(h.kind == "collection" for h in args):
                    res.count("appends_of_collections")
                register_collection(fc, fresh=True)
            elif op == "view":
                cands = [h for h in fields if h.obj.rank > 0]
                if not cands:
                    if colls:  # member access by index returns the member object itself
                        hc = colls[int(rng.integers(len(colls)))]
                        i = int(rng.integers(len(hc.obj)))
                        if hc.obj[i] is not hc.members[i].obj:
                            fail("collection[i] does not return the member object")
                    continue
                h = cands[int(rng.integers(len(cands)))]
                if h.obj.rank == 1:
                    k = int(rng.integers(dim))
                    key = k if rng.random() < 0.5 else (list(grid.axes) + list(grid.axes_symmetric))[k]
                    v = h.obj[key]
                    comp = h.comps[k]
                else:
                    i, j = int(rng.integers(dim)), int(rng.integers(dim))
                    v = h.obj[i, j]
                    comp = h.comps[i * dim + j]
                log.append(("component view", describe(h), comp))
                world.add(v, h.buffer, [comp], "view", free=False)
                res.count("component_views")
            elif op in ("arith", "product", "unary"):
                h = fields[int(rng.integers(len(fields)))] if fields else None
                if h is None:
                    continue
                snap = {id(x): x.obj._data_full.tobytes() for x in world.handles}
                if op == "unary":
                    r = [lambda f: -f, lambda f: f.real, lambda f: f.conjugate(), lambda f: abs(f) if False else f * 1][int(rng.integers(3))](h.obj)
                    log.append(("unary", describe(h)))
                elif op == "product":
                    vs = [x for x in fields if x.obj.rank == 1 and not np.iscomplexobj(x.obj.data)]
                    if len(vs) < 1:
                        continue
                    a, b = vs[int(rng.integers(len(vs)))], vs[int(rng.integers(len(vs)))]
                    r = a.obj.dot(b.obj) if rng.random() < 0.5 else a.obj.outer_product(b.obj)
                    log.append(("product", describe(a), describe(b)))
                else:
                    same = [x for x in fields if x.obj.rank == h.obj.rank]
                    other = same[int(rng.integers(len(same)))]
                    choice = int(rng.integers(5))
                    r = [lambda: h.obj + other.obj, lambda: h.obj - other.obj, lambda: h.obj * 2.5, lambda: 1.5 + h.obj, lambda: h.obj / 2][choice]()
                    log.append(("arithmetic", choice, describe(h), describe(other)))
                res.count("binary_ops_checked")
                for x in world.handles:
                    if x.obj._data_full.tobytes() != snap[id(x)]:
                        fail(f"{op} changed its operand or an unrelated field: {describe(x)}")
                        break
                register_result(r)
            elif op == "inplace":
                h = world.handles[int(rng.integers(len(world.handles)))]
                snap = {id(x): x.obj._data_full.copy() for x in world.handles}
                obj = h.obj
                ident = id(obj)
                nd = grid.num_axes
                dim = grid.dim
                old_valid = np.array(obj.data, copy=True)
                tensor = isinstance(obj, pde.Tensor2Field)
                single = not isinstance(obj, pde.FieldCollection)
                choices = ["+=", "*=", "-= field", "/=", "**=", "apply(out=self)"]
                if tensor:
                    choices += ["transpose(inplace)", "symmetrize(inplace)", "convert anti-symmetric (inplace)", "convert traceless (inplace)", "symmetrize traceless (inplace)"] * 2
                if single and not np.iscomplexobj(obj.data):
                    choices += ["smooth(out=self)", "insert"]
                choice = str(rng.choice(choices))
                judge_valid = True
                T = lambda v: np.swapaxes(v, 0, 1)  # noqa: E731
                eye = np.eye(dim).reshape((dim, dim) + (1,) * nd)
                if choice == "+=":
                    obj += 0.5
                    new_valid = old_valid + 0.5
                elif choice == "*=":
                    obj *= 2.0
                    new_valid = old_valid * 2.0
                elif choice == "-= field":
                    obj -= obj.copy() * 0.25
                    new_valid = old_valid - old_valid * 0.25
                elif choice == "/=":
                    obj /= 4.0
                    new_valid = old_valid / 4.0
                elif choice == "**=":
                    obj **= 2
                    new_valid = old_valid**2
                elif choice == "apply(out=self)":
                    ret = obj.apply(lambda a: a * a + 1, out=obj)
                    new_valid = old_valid * old_valid + 1
                    if ret is not obj:
                        fail("apply(out=self) returned a different object")
                elif choice == "transpose(inplace)":
                    ret = obj.transpose(inplace=True) if rng.random() < 0.5 else obj.convert("transposed", inplace=True)
                    new_valid = T(old_valid)
                    if ret is not obj:
                        fail("transpose(inplace=True) returned a different object")
                elif choice == "symmetrize(inplace)":
                    obj.symmetrize(inplace=True)
                    new_valid = (old_valid + T(old_valid)) / 2
                elif choice == "convert anti-symmetric (inplace)":
                    obj.convert("anti-symmetric", inplace=True)
                    new_valid = (old_valid - T(old_valid)) / 2
                elif choice == "convert traceless (inplace)":
                    obj.convert("traceless", inplace=True)
                    new_valid = old_valid - np.trace(old_valid, axis1=0, axis2=1) / dim * eye
                elif choice == "symmetrize traceless (inplace)":
                    obj.symmetrize(make_traceless=True, inplace=True)
                    sym = (old_valid + T(old_valid)) / 2
                    new_valid = sym - np.trace(sym, axis1=0, axis2=1) / dim * eye
                elif choice == "smooth(out=self)":
                    obj.smooth(0.7, out=obj)
                    new_valid, judge_valid = None, False
                else:
                    lo = np.array([b[0] for b in grid.axes_bounds])
                    hi = np.array([b[1] for b in grid.axes_bounds])
                    obj.insert(lo + (hi - lo) * rng.uniform(0.3, 0.7, size=nd), 1.5)
                    new_valid, judge_valid = None, False
                log.append(("in-place", choice, describe(h)))
                res.count("inplace_ops_checked")
                res.seen("inplace_kinds_seen", choice)
                if id(obj) != ident:
                    fail("in-place operation returned a different object")
                if judge_valid:
                    new_flat = np.asarray(new_valid).reshape((len(h.comps),) + tuple(grid.shape))
                valid = (slice(1, -1),) * nd
                for x in world.handles:
                    was, now = snap[id(x)], x.obj._data_full
                    exp = was.copy()
                    if x.buffer == h.buffer:
                        for c in (c for c in x.comps if c in h.comps):
                            kk = x.comps.index(c)
                            xt = x.obj.data.shape[: x.obj.data.ndim - nd]
                            ci = np.unravel_index(kk, xt) if xt else ()
                            sl = tuple(ci) + valid
                            exp[sl] = new_flat[h.comps.index(c)] if judge_valid else now[sl]
                    if not np.allclose(now, exp, rtol=1e-13, atol=1e-300, equal_nan=True):
                        bad = np.argwhere(~np.isclose(now, exp, rtol=1e-13, atol=1e-300, equal_nan=True))[0]
                        ghost = any(b == 0 or b == s - 1 for b, s in zip(bad[-nd:], now.shape[-nd:]))
                        fail(f"in-place operation {choice} on {describe(h)}: {describe(x)} changed in a {'ghost cell' if ghost else 'valid cell it must not change (or failed to change)'} at {tuple(map(int, bad))}")
                        break
            elif op == "assign":
                h = world.handles[int(rng.integers(len(world.handles)))]
                snap = {id(x): x.obj._data_full.copy() for x in world.handles}
                val = float(np.round(rng.uniform(-5, 5), 2))
                h.obj.data = val
                log.append(("data = const", describe(h), val))
                nd = grid.num_axes
                ghost_mask = np.ones(h.obj._data_full.shape, dtype=bool)
                ghost_mask[(Ellipsis, *(slice(1, -1),) * nd)] = False
                if not np.array_equal(h.obj._data_full[ghost_mask], snap[id(h)][ghost_mask], equal_nan=True):
                    fail("data assignment changed ghost cells")
                if not np.all(h.obj.data == val):
                    fail("data assignment did not set all valid cells")
                for x in world.handles:
                    if x.buffer != h.buffer and x.obj._data_full.tobytes() != snap[id(x)].tobytes():
                        fail(f"data assignment to {describe(h)} changed unrelated {describe(x)}")
                        break
            elif op == "setitem":
                if not colls:
                    continue
                hc = colls[int(rng.integers(len(colls)))]
                i = int(rng.integers(len(hc.obj)))
                val = float(np.round(rng.uniform(-5, 5), 2))
                hc.obj[i] = val
                log.append(("collection[i] = const", describe(hc), i, val))
                sl = hc.obj._slices[i]
                if not np.all(hc.obj.data[sl] == val) or not np.all(hc.members[i].obj.data == val):
                    fail("collection[i] = value is not visible through both the collection and its member")
            elif op == "operator":
                cands = [h for h in fields if h.obj.rank == 0 and not np.iscomplexobj(h.obj.data)]
                if not cands:
                    continue
                h = cands[int(rng.integers(len(cands)))]
                before = h.obj.data.copy()
                others = {id(x): x.obj.data.copy() for x in world.handles}
                r = h.obj.laplace("auto_periodic_neumann") if rng.random() < 0.5 else h.obj.gradient("auto_periodic_neumann")
                log.append(("operator", describe(h)))
                if not np.array_equal(h.obj.data, before):
                    fail("operator changed the valid data of its operand")
                for x in world.handles:
                    if not np.array_equal(x.obj.data, others[id(x)], equal_nan=True):
                        fail(f"operator changed valid data of {describe(x)}")
                        break
                register_result(r)
            kinds_seen.add(op)
        except Exception as exc:
            log.append(("exception", op, type(exc).__name__, str(exc)[:200]))
            fail(f"operation {op} raised {type(exc).__name__}: {str(exc)[:200]}")
        if failed:
            return
        if not check_invariants(world, fail) or not check_aliasing(world, fail):
            return
        for _ in range(2):
            if not write_probe(world, fail):
                return
    has_rank = any(h.kind == "collection" and any(m.obj.rank > 0 for m in h.members) for h in world.handles)
    nontrivial = has_rank and ("view" in kinds_seen) and bool({"inplace", "assign", "setitem"} & kinds_seen)
    res.case([e[0] for e in log], nontrivial=nontrivial)
    if hist_no < 2:
        res.sample({"history": [str(e)[:160] for e in log[:14]]})


def run_shard(spec: dict) -> ShardResult:
    res = ShardResult(spec)
    rng = np.random.default_rng([spec["seed"], 15, spec["index"]])
    for i in range(spec["cases"]):
        run_history(rng, res, i)
    return res
