"""C17 — splitting a grid into sub-grids changes nothing.

Events: ``GridMesh.from_grid(grid, decomposition)`` for *all* decompositions of small grids
(every chunk count per axis up to the number of cells), its ``extract_*``/``combine_*`` methods
and neighbour queries, and a **serial MPI emulation**: ``pde.tools.mpi.mpi_send/mpi_recv`` are
replaced by an in-memory mailbox that logs every message, ``mpi.rank`` is set per emulated
node, every node builds its conditions with ``extract_boundary_conditions`` and exchanges
ghost cells axis by axis (all sends of an axis, then all receives, as the concurrent ranks do),
then applies the raw operator on its sub-grid.

Oracle: exact tiling model (bounds, shapes, volumes, coordinates), bit-identity of
split+combine, symmetry/periodicity of the neighbour relation, an exactly-once checker over the
message log, and equality (round-off) of the combined operator result with the whole-grid
result.
"""

from __future__ import annotations

import itertools

import numpy as np

from .. import gen
from ..models import bc as bcm
from ..models import stencils
from ..runner import ShardResult
from .c01 import operator_options
from .c02 import grid_info

PROPERTY = "C17"
LEVEL = "exploration"
RULE = (
    "A case is one (grid, decomposition) pair with all decompositions of the grid enumerated "
    "(chunk counts 1..N per axis, capped at 24 sub-grids), checked for tiling, split/combine "
    "(ranks 0-2, collections, with/without ghost cells), neighbours, and - for one generated "
    "(operator, option, boundary assignment) - operator equivalence through the emulated ghost "
    "exchange. Distinct = distinct (grid class, num_axes, periodic pattern, shape, decomposition, "
    "operator); non-trivial = at least two sub-grids and uneven chunk sizes or a periodic split "
    "axis or several split axes."
)
ASSUMPTIONS = [
    "real MPI transport is not exercised (mpi4py is not installed); only mpi_send/mpi_recv are replaced, everything above them is the package's own code",
    "a constructor raising NotImplementedError/RuntimeError marks the decomposition (or the transfer of a condition to a sub-grid) inadmissible; it is recorded, not judged",
    "outer-face conditions are homogeneous in the sense of to_subgrid (constants/tensors) or *_expression conditions, the kinds the package can transfer to sub-grids",
]
REQUIRED = {
    "decompositions_built": 150,
    "split_combine_checked": 400,
    "subfields_with_ghost_cells_checked": 300,
    "neighbour_pairs_checked": 400,
    "operator_equivalences": 60,
    "messages_delivered": 300,
    "multi_axis_decompositions": 20,
    "periodic_split_axes": 15,
    "grid_classes_seen": 4,
}
EPS = 2.220446049250313e-16


def plan(tier: str, seed: int) -> list[dict]:
    from ..models import curvi

    curvi.ensure_cache()
    quick = tier == "quick"
    return [{"kind": "mesh", "mode": "jit", "grids": 3 if quick else 10, "timeout": 1800 if quick else 5000, "known_finding_probe": i == 0}
            for i in range(16 if quick else 48)]


class Mailbox:
    """In-memory replacement of the MPI point-to-point transport with a message log."""

    def __init__(self):
        self.box: dict = {}
        self.log: list = []
        self.rank = 0
        self.errors: list = []

    def send(self, data, dest, tag):
        key = (self.rank, int(dest), int(tag))
        if key in self.box:
            self.errors.append(f"second message with identical (src, dst, tag)={key} before the first was received")
        self.box.setdefault(key, []).append(np.array(data, copy=True))
        self.log.append(("send", *key, tuple(np.shape(data))))

    def recv(self, data, source, tag):
        key = (int(source), self.rank, int(tag))
        queue = self.box.get(key)
        if not queue:
            self.errors.append(f"receive without matching message (src, dst, tag)={key}")
            raise RuntimeError(f"emulated MPI: no message for {key}")
        payload = queue.pop(0)
        if not queue:
            del self.box[key]
        if np.shape(payload) != np.shape(data):
            self.errors.append(f"message shape {np.shape(payload)} does not fit the receive buffer {np.shape(data)} for {key}")
        data[...] = payload
        self.log.append(("recv", *key, tuple(np.shape(data))))

    def pending(self):
        return {k: len(v) for k, v in self.box.items()}


def enumerate_decompositions(shape, cap=24):
    for deco in itertools.product(*[range(1, n + 1) for n in shape]):
        if int(np.prod(deco)) <= cap:
            yield list(deco)


def check_tiling(grid, gspec, mesh, deco, res, case):
    info = grid_info(gspec)
    nd = len(info["shape"])
    ok = True
    for axis in range(nd):
        idx = [0] * nd
        idx[axis] = slice(None)
        subs = list(mesh.subgrids[tuple(idx)])
        sizes = [g.shape[axis] for g in subs]
        if len(subs) != deco[axis] or sum(sizes) != info["shape"][axis] or min(sizes) < 1:
            res.violation(f"axis {axis}: chunk sizes {sizes} do not tile {info['shape'][axis]} cells", case)
            return False
        lo, hi = info["bounds"][axis]
        tol = 8 * EPS * (abs(lo) + abs(hi))
        if abs(subs[0].axes_bounds[axis][0] - lo) > tol or abs(subs[-1].axes_bounds[axis][1] - hi) > tol:
            res.violation(f"axis {axis}: outer bounds of the tiling differ from the base grid", case)
            ok = False
        for a, b in zip(subs, subs[1:]):
            # Cartesian sub-grids store (position, size) and re-add them: neighbouring bounds agree to round-off
            if abs(a.axes_bounds[axis][1] - b.axes_bounds[axis][0]) > tol:
                res.violation(f"axis {axis}: gap/overlap between neighbouring sub-grids ({a.axes_bounds[axis][1]!r} vs {b.axes_bounds[axis][0]!r})", case)
                ok = False
        coords = np.concatenate([g.axes_coords[axis] for g in subs])
        if coords.shape != grid.axes_coords[axis].shape or np.abs(coords - grid.axes_coords[axis]).max() > 16 * EPS * (abs(lo) + abs(hi)):
            res.violation(f"axis {axis}: concatenated cell coordinates differ from the base grid", case)
            ok = False
        for g in subs:
            want_per = info["periodic"][axis] and deco[axis] == 1
            if bool(g.periodic[axis]) != bool(want_per):
                res.violation(f"axis {axis}: sub-grid periodic flag {g.periodic[axis]} (base periodic={info['periodic'][axis]}, chunks={deco[axis]})", case)
                ok = False
    total = sum(float(g.volume) for g in mesh.subgrids.flat)
    if abs(total - float(grid.volume)) > 1e-12 * abs(float(grid.volume)) * mesh.subgrids.size:
        res.violation("sub-grid volumes do not sum to the base volume", case, total=total, base=float(grid.volume))
        ok = False
    Vb = np.broadcast_to(np.asarray(grid.cell_volumes, dtype=float), info["shape"])
    Vs = mesh.combine_field_data([np.broadcast_to(np.asarray(g.cell_volumes, dtype=float), g.shape) for g in (mesh[i] for i in range(len(mesh)))])
    if np.abs(Vs - Vb).max() > 1e-11 * np.abs(Vb).max():
        res.violation("cell volumes of the sub-grids differ from those of the base grid", case)
        ok = False
    for i in range(len(mesh)):
        if type(mesh[i]) is not type(grid) and not (type(grid).__name__ == "UnitGrid"):
            res.violation(f"sub-grid {i} has class {type(mesh[i]).__name__}", case)
            ok = False
    return ok


def check_split_combine(grid, mesh, rng, res, case):
    import pde

    nd = grid.num_axes
    for rank in (0, 1, 2):
        cls = [pde.ScalarField, pde.VectorField, pde.Tensor2Field][rank]
        f = cls(grid)
        f._data_full[...] = rng.uniform(-1, 1, size=f._data_full.shape)
        for ghost in (False, True):
            src = f._data_full if ghost else f.data
            parts = [mesh.extract_field_data(src, i, with_ghost_cells=ghost) for i in range(len(mesh))]
            for i, part in enumerate(parts):
                want_shape = tuple(s + 2 * ghost for s in mesh[i].shape)
                if part.shape[-nd:] != want_shape:
                    res.violation(f"extract_field_data: node {i} got shape {part.shape}, sub-grid {'padded ' if ghost else ''}shape {want_shape}", case)
                    return
            back = mesh.combine_field_data([p.copy() for p in parts], with_ghost_cells=ghost)
            res.count("split_combine_checked")
            if ghost:
                # overlapping ghost layers are overwritten by neighbours: compare valid part and outer ghost shell
                valid = (Ellipsis, *(slice(1, -1),) * nd)
                if back[valid].tobytes() != src[valid].tobytes():
                    res.violation(f"split+combine with ghost cells changed valid data (rank {rank})", case)
                    return
            elif back.tobytes() != src.tobytes():
                res.violation(f"split+combine is not the identity (rank {rank})", case)
                return
        sub = mesh.extract_subfield(f, len(mesh) - 1)
        if type(sub) is not cls or not np.array_equal(sub.data, mesh.extract_field_data(f.data, len(mesh) - 1)):
            res.violation("extract_subfield differs from extract_field_data", case)
            return
        node = int(rng.integers(len(mesh)))
        subg = mesh.extract_subfield(f, node, with_ghost_cells=True)
        res.count("subfields_with_ghost_cells_checked")
        if type(subg) is not cls or subg._data_full.tobytes() != mesh.extract_field_data(f._data_full, node, with_ghost_cells=True).tobytes():
            res.violation(f"extract_subfield(with_ghost_cells=True) of a rank-{rank} field differs from the corresponding part of the padded array", case, node=node)
            return
    fc = pde.FieldCollection([pde.ScalarField(grid, rng.uniform(size=grid.shape)), pde.VectorField(grid, rng.uniform(size=(grid.dim, *grid.shape)))])
    subs = [mesh.extract_subfield(fc, i) for i in range(len(mesh))]
    back = mesh.combine_field_data([s.data for s in subs])
    res.count("split_combine_checked")
    if back.tobytes() != fc.data.tobytes():
        res.violation("split+combine of a field collection is not the identity", case)
    fc._data_full[...] = rng.uniform(-1, 1, size=fc._data_full.shape)
    for node in range(len(mesh)):
        sub = mesh.extract_subfield(fc, node, with_ghost_cells=True)
        res.count("subfields_with_ghost_cells_checked")
        want = mesh.extract_field_data(fc._data_full, node, with_ghost_cells=True)
        if not isinstance(sub, pde.FieldCollection) or sub._data_full.shape != want.shape or sub._data_full.tobytes() != want.tobytes():
            res.violation("extract_subfield(with_ghost_cells=True) of a field collection differs from the corresponding part of the padded array", case, node=node)
            return
        for k, member in enumerate(sub):
            if not np.shares_memory(member._data_full, sub._data_full):
                res.violation(f"member {k} of an extracted sub-collection is not linked to the collection's data", case, node=node)
                return
    back = mesh.combine_field_data([mesh.extract_subfield(fc, i, with_ghost_cells=True)._data_full for i in range(len(mesh))], with_ghost_cells=True)
    valid = (Ellipsis, *(slice(1, -1),) * nd)
    if back[valid].tobytes() != fc._data_full[valid].tobytes():
        res.violation("split+combine of a field collection with ghost cells changed valid data", case)


def check_neighbours(grid, mesh, deco, res, case):
    nd = grid.num_axes
    shape = mesh.shape
    for n in range(len(mesh)):
        idx = np.unravel_index(n, shape)
        for axis in range(nd):
            for upper in (False, True):
                m = mesh.get_neighbor(axis, upper, node_id=n)
                res.count("neighbour_pairs_checked")
                pos = idx[axis]
                size = shape[axis]
                if size == 1:
                    want = None
                else:
                    step = 1 if upper else -1
                    q = pos + step
                    if 0 <= q < size:
                        want_idx = list(idx)
                        want_idx[axis] = q
                        want = int(np.ravel_multi_index(want_idx, shape))
                    elif grid.periodic[axis]:
                        want_idx = list(idx)
                        want_idx[axis] = q % size
                        want = int(np.ravel_multi_index(want_idx, shape))
                    else:
                        want = None
                if (m is None) != (want is None) or (m is not None and int(m) != want):
                    res.violation(f"neighbour of node {n} along axis {axis} {'upper' if upper else 'lower'} is {m}, expected {want}", case)
                    return
                if m is not None and mesh.get_neighbor(axis, not upper, node_id=int(m)) != n:
                    res.violation(f"neighbour relation is not symmetric between nodes {n} and {m}", case)
                    return


def emulate_operator(grid, gspec, mesh, deco, rng, res, case, probe_f18=False):
    import pde
    from pde.backends import get_backend
    from pde.grids.boundaries.local import _MPIBC
    from pde.tools import mpi

    be = get_backend("numba")
    info = grid_info(gspec)
    names = [n for n in sorted(be.get_registered_operators(grid)) if n in stencils.RANKS]
    name = str(rng.choice(names))
    opinfo, optlist = operator_options(be, grid, name)
    opts = optlist[int(rng.integers(len(optlist)))]
    rank = opinfo.rank_in
    structure = bcm.gen_structure(rng, info, rank)
    for ax in structure["axes"]:
        for c in ax.get("sides", []):
            was_normal = c["normal"]
            c["normal"] = False
            c["alias"] = bcm.ALIASES[(c["kind"], False)][0] if c["vform"] != "texpr" else c["alias"]
            if was_normal or c["vform"] in ("array", "expr") or (c["kind"] == "mixed" and c.get("bform") == "array"):
                c.update({"vform": "const", "v": 0.5})
                for key in ("v_text", "v_fn", "b_text", "b_fn"):
                    c.pop(key, None)
                if c["kind"] == "mixed":
                    c.update({"beta": -0.4, "bform": "const"})
            if c["kind"] == "mixed" and np.ndim(c.get("beta", 0)) > 0 and np.shape(c["beta"]) != np.shape(c["v"]):
                c.update({"beta": 0.3, "bform": "const"})
            if gspec["cls"] == "SphericalSymGrid" and rank > 0:
                c.update({"kind": "derivative", "alias": "derivative", "vform": "zero", "v": 0.0})
    if probe_f18:
        name, opts, rank = "laplace", {}, 0
        opinfo, _ = operator_options(be, grid, name)
        structure = {"axes": [{"periodic": "periodic"}, {"periodic": "anti-periodic"}]}
    spec_data, fmt = bcm.render_spec(rng, structure, info["axes"], dict(grid.boundary_names), accept_lists=False)
    needs_t = any(c.get("vform") == "texpr" for ax in structure["axes"] for c in ax.get("sides", []))
    args = {"t": 0.7} if needs_t else None
    sub = {**case, "operator": name, "options": opts, "bc": spec_data}
    cls = [pde.ScalarField, pde.VectorField, pde.Tensor2Field][rank]
    f = cls(grid)
    f._data_full[...] = stencils.admissible_project(gspec, rank, rng.uniform(-1, 1, size=f._data_full.shape))
    shape_out = lambda g: (g.dim,) * opinfo.rank_out + tuple(g.shape)  # noqa: E731
    # whole-grid reference
    try:
        bcs_base = grid.get_boundary_conditions(spec_data, rank=rank)
        whole = f.copy()
        whole.set_ghost_cells(bcs_base, args=args)
        ref = np.empty(shape_out(grid))
        grid.make_operator_no_bc(name, backend="numba", **opts)(whole._data_full, ref)
    except Exception as exc:
        res.violation(f"whole-grid evaluation raised {type(exc).__name__}: {str(exc)[:200]}", sub)
        return
    box = Mailbox()
    saved = (mpi.mpi_send, mpi.mpi_recv, mpi.rank)
    mpi.mpi_send, mpi.mpi_recv = box.send, box.recv
    try:
        nodes = []
        for n in range(len(mesh)):
            mpi.rank = box.rank = n
            sf = mesh.extract_subfield(f, n)
            sf._data_full[...] = np.nan
            sf.data = mesh.extract_field_data(f.data, n)
            try:
                bcs_n = mesh.extract_boundary_conditions(bcs_base)
                for pair in bcs_n:  # curvature conditions need two cells of the sub-grid
                    for side in ((pair.low, pair.high) if hasattr(pair, "low") else ()):
                        if hasattr(side, "get_virtual_point_data") and not isinstance(side, _MPIBC):
                            side.get_virtual_point_data()
            except NotImplementedError:
                res.count("conditions_not_transferable_to_subgrid")
                return
            except RuntimeError as exc:
                if "support points" in str(exc):
                    res.count("conditions_not_transferable_to_subgrid")
                    return
                raise
            nodes.append((sf, bcs_n))
        for axis in range(grid.num_axes):
            before = len(box.log)
            for n, (sf, bcs_n) in enumerate(nodes):
                mpi.rank = box.rank = n
                pair = bcs_n[axis]
                for side in (pair.low, pair.high) if hasattr(pair, "low") else ():
                    if isinstance(side, _MPIBC):
                        side.send_ghost_cells(sf._data_full, args=args)
            for n, (sf, bcs_n) in enumerate(nodes):
                mpi.rank = box.rank = n
                pair = bcs_n[axis]
                if hasattr(pair, "low"):
                    pair.high.set_ghost_cells(sf._data_full, args=args)
                    pair.low.set_ghost_cells(sf._data_full, args=args)
                else:
                    pair.set_ghost_cells(sf._data_full, args=args)
            if box.pending():
                res.violation(f"messages sent along axis {axis} were never received: {box.pending()}", sub)
                return
            sends = [e for e in box.log[before:] if e[0] == "send"]
            recvs = [e for e in box.log[before:] if e[0] == "recv"]
            internal = sum(1 for n in range(len(mesh)) for upper in (False, True) if mesh.get_neighbor(axis, upper, node_id=n) is not None)
            if len(sends) != internal or len(recvs) != internal or sorted(s[1:] for s in sends) != sorted(r[1:] for r in recvs):
                res.violation(f"axis {axis}: {len(sends)} sends / {len(recvs)} receives for {internal} internal faces (each face needs exactly one message per direction)", sub)
                return
            res.count("messages_delivered", len(recvs))
        if box.errors:
            res.violation(f"emulated transport: {box.errors[0]}", sub, all_errors=box.errors[:5])
            return
        outs = []
        for n, (sf, _) in enumerate(nodes):
            g = mesh[n]
            out = np.empty(shape_out(g))
            g.make_operator_no_bc(name, backend="numba", **opts)(sf._data_full, out)
            outs.append(out)
        combined = mesh.combine_field_data(outs)
    except Exception as exc:
        if box.errors:
            res.violation(f"emulated transport: {box.errors[0]}", sub)
        else:
            res.violation(f"sub-grid evaluation raised {type(exc).__name__}: {str(exc)[:300]}", sub)
        return
    finally:
        mpi.mpi_send, mpi.mpi_recv, mpi.rank = saved
    mag = stencils.apply_model(gspec, name, opts, np.nan_to_num(whole._data_full), abs_mode=True)
    if name == "gradient_squared":
        mag = mag * 4
    scale = max(abs(x) for b in info["bounds"] for x in b) / min((b[1] - b[0]) / n for b, n in zip(info["bounds"], info["shape"]))
    tol = 2048 * EPS * mag * (1 + scale) + 1e-300
    res.count("operator_equivalences")
    diff = np.abs(combined - ref)
    if np.isnan(combined).any() or (diff > tol).any():
        k = np.unravel_index(int(np.nanargmax(np.where(np.isnan(diff), np.inf, diff - tol))), diff.shape)
        mech = None
        anti_split = [a for a, ax in enumerate(structure["axes"]) if ax.get("periodic") == "anti-periodic" and deco[a] > 1]
        if anti_split:
            # alternative model: flip the sign of the ghost layer at the seam of the split
            # anti-periodic axes on the boundary nodes and re-evaluate
            try:
                outs2 = []
                for n, (sf, _) in enumerate(nodes):
                    pad = sf._data_full.copy()
                    idx_n = np.unravel_index(n, mesh.shape)
                    for a in anti_split:
                        sl = [slice(None)] * pad.ndim
                        if idx_n[a] == 0:
                            sl[pad.ndim - grid.num_axes + a] = 0
                            pad[tuple(sl)] *= -1
                        if idx_n[a] == mesh.shape[a] - 1:
                            sl[pad.ndim - grid.num_axes + a] = -1
                            pad[tuple(sl)] *= -1
                    out2 = np.empty(shape_out(mesh[n]))
                    mesh[n].make_operator_no_bc(name, backend="numba", **opts)(pad, out2)
                    outs2.append(out2)
                alt = mesh.combine_field_data(outs2)
                if not np.isnan(alt).any() and (np.abs(alt - ref) <= tol).all():
                    mech = "antiperiodic-split-axis-loses-sign"
            except Exception:
                pass
        res.violation("operator applied per sub-grid (ghost cells from neighbours) differs from the whole-grid result", sub, mechanism=mech,
                      index=list(map(int, k)), combined=combined[k], whole=ref[k], tolerance=float(tol[k]))
    res.seen("operators", name)


def run_shard(spec: dict) -> ShardResult:
    from pde.grids._mesh import GridMesh

    res = ShardResult(spec)
    rng = np.random.default_rng([spec["seed"], 17, spec["index"]])
    for gi in range(spec["grids"]):
        gspec = gen.random_grid_spec(rng, sizes=(1, 2, 3, 4, 5, 7, 9), max_cells=90, tame=rng.random() < 0.7)
        if gi == 0 and spec.get("known_finding_probe"):
            # fixed witness of known finding F18 (reported on every run)
            gspec = {"cls": "UnitGrid", "shape": [4, 6], "periodic": [True, True]}
        if gi == 1 and spec["index"] in (1, 2):
            # fixed grids with long axes starting at negative coordinates (every run sees them)
            gspec = [{"cls": "CartesianGrid", "bounds": [[-3.0, 4.5]], "shape": [7], "periodic": [False]},
                     {"cls": "CartesianGrid", "bounds": [[-2.0, 1.0], [-1.5, 0.0]], "shape": [5, 6], "periodic": [False, True]}][spec["index"] - 1]
        grid = gen.make_grid(gspec)
        cls = gspec["cls"]
        shape = gen.grid_shape(gspec)
        decos = list(enumerate_decompositions(shape))
        if len(decos) > 14:
            keep = set(rng.choice(len(decos), size=14, replace=False).tolist()) | {0, len(decos) - 1}
            decos = [d for i, d in enumerate(decos) if i in keep or (gi == 0 and spec.get("known_finding_probe") and d == [1, 3])]
        for deco in decos:
            case = {"grid": gspec, "decomposition": deco}
            try:
                mesh = GridMesh.from_grid(grid, deco)
            except (NotImplementedError, RuntimeError) as exc:
                res.count("inadmissible_decompositions")
                res.seen("inadmissible", f"{cls}: {type(exc).__name__}: {str(exc)[:60]}")
                continue
            except Exception as exc:
                res.violation(f"from_grid raised {type(exc).__name__}: {str(exc)[:200]}", case)
                continue
            res.count("decompositions_built")
            res.seen("grid_classes_seen", cls)
            nsplit = sum(d > 1 for d in deco)
            if nsplit >= 2:
                res.count("multi_axis_decompositions")
            per_split = any(p and d > 1 for p, d in zip(gen.grid_periodic(gspec), deco))
            if per_split:
                res.count("periodic_split_axes")
            if list(mesh.shape) != list(deco) or len(mesh) != int(np.prod(deco)):
                res.violation(f"mesh has shape {mesh.shape} for decomposition {deco}", case)
                continue
            if check_tiling(grid, gspec, mesh, deco, res, case):
                check_split_combine(grid, mesh, rng, res, case)
                check_neighbours(grid, mesh, deco, res, case)
                probe = gi == 0 and spec.get("known_finding_probe") and deco == [1, 3]
                if len(mesh) > 1 and (rng.random() < 0.6 or probe):
                    emulate_operator(grid, gspec, mesh, deco, rng, res, case, probe_f18=bool(probe))
            uneven = any(len({g.shape[a] for g in mesh.subgrids.flat}) > 1 for a in range(len(shape)))
            res.case((cls, len(shape), tuple(gen.grid_periodic(gspec)), tuple(shape), tuple(deco)), nontrivial=len(mesh) > 1 and (uneven or per_split or nsplit >= 2))
        if gi < 1:
            res.sample({"grid": gspec, "decompositions": decos[:6]})
    return res
