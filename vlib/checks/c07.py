"""C07 — observation does not perturb a simulation; step and time accounting is exact.

Events per run: ProbePDE evaluation log, recording trackers' call logs, ``steps``,
``t_final``, the final state, bytes of the caller's initial state before/after.
Oracle: (i) differential — the run with 0-4 read-only trackers (constant, fixed, logarithmic,
geometric interrupts, incommensurate with dt) must end in the same state as the tracker-free
run (bit-identical for autonomous rates); (ii) accounting — ``steps == N`` and ``t_final ==
t_end`` for whole ranges, ``t_final == t_start + steps*dt`` and ``|t_final - t_end| < dt``
for any range, final state == the tracker-free run over exactly ``steps`` steps, step start
times form the lattice ``t_start + n*dt`` without gaps or repeats; (iii) the initial state
object is byte-identical afterwards.
"""

from __future__ import annotations

import math
from fractions import Fraction as Fr

import numpy as np

from ..monitors import probe
from ..runner import ShardResult

PROPERTY = "C07"
LEVEL = "exploration"
RULE = (
    "A case is one (solver, backend, dt, t_start, range, probe rate/forcing, set of 0-4 read-only "
    "trackers with generated interrupt schedules) run twice or three times (with trackers, "
    "without, and without over exactly `steps` steps). Distinct = distinct (solver, backend, "
    "whole/partial range, autonomous or not, tracker kinds, dt class); non-trivial = at least one "
    "tracker whose interval is not a multiple of dt, and at least 3 steps."
)
ASSUMPTIONS = [
    "a range counts as 'N steps long' when (t_end - t_start)/dt is within 1e-9 of the integer N",
    "trackers are read-only recording trackers; a tracker that modifies the state is outside the statement",
    "non-autonomous rates: agreement to round-off (segment start times differ by round-off), autonomous: bit-identical",
]
REQUIRED = {
    "runs_with_trackers": 400,
    "bit_identical_checked": 200,
    "whole_ranges": 150,
    "partial_ranges": 100,
    "lattices_checked": 300,
    "numba_runs": 15,
    "tracker_kinds_seen": 4,
    "runs_with_post_step_hook": 150,
    "hook_kinds_seen": 2,
}
FIXED = ["euler", "runge-kutta", "implicit", "crank-nicolson", "adams-bashforth"]
DTS = [0.1, 0.25, 1 / 3, 0.7, 1e-2, 0.3, 2.0**-3, 2.0**-6, 0.05]


def plan(tier: str, seed: int) -> list[dict]:
    quick = tier == "quick"
    shards = []
    for _ in range(10 if quick else 40):
        shards.append({"kind": "runs", "mode": "jit", "backend": "numpy", "cases": 60 if quick else 300, "timeout": 1500 if quick else 4000})
    for _ in range(4 if quick else 16):
        shards.append({"kind": "runs", "mode": "jit", "backend": "numba", "cases": 5 if quick else 16, "timeout": 1500 if quick else 4000})
    return shards


def gen_interrupt(rng, dt, t0, T):
    kind = str(rng.choice(["constant", "constant", "fixed", "logarithmic", "geometric"]))
    if kind == "constant":
        mult = float(rng.choice([1.0, 2.0, 3.0, 0.5, math.pi / 2, math.sqrt(2), 1.37, 2.5, 7.3, 0.9]))
        spec = {"kind": kind, "dt": dt * mult, "t_start": None if rng.random() < 0.7 else float(t0 + rng.uniform(-0.5, 0.5) * T)}
        if spec["t_start"] is None and rng.random() < 0.3:
            spec["as_number"] = True
        return spec
    if kind == "fixed":
        n = int(rng.integers(0, 6))
        pts = sorted(float(t0 + rng.uniform(-0.1, 1.1) * T) for _ in range(n))
        if rng.random() < 0.3 and n:
            pts[0] = t0  # exactly the start
        pts = sorted(set(pts))
        return {"kind": kind, "points": pts}
    if kind == "logarithmic":
        return {"kind": kind, "dt": dt * float(rng.choice([1.0, 1.7, 0.6])), "factor": float(rng.choice([1.0, 1.3, 2.0])), "t_start": None}
    return {"kind": kind, "scale": max(dt * float(rng.uniform(0.5, 3)), 1e-6), "factor": float(rng.choice([1.5, 2.0, 3.0]))}


def gen_run(rng, backend):
    solver = str(rng.choice(FIXED, p=[0.4, 0.15, 0.15, 0.15, 0.15]))
    dt = float(rng.choice(DTS))
    whole = rng.random() < 0.6
    N = int(rng.choice([1, 2, 3, 5, 7, 12, 30, 80] if backend == "numpy" else [3, 5, 12, 30]))
    t0 = float(rng.choice([0.0, 0.0, 1.0, -3.3, 12.5, 0.1 * 3]))
    if whole:
        edge = rng.random() < 0.3
        T = N * dt if not edge else float(rng.choice([0.1 * 3, 0.7 * 3, 1.0, 2.5 * dt, 3.5 * dt * 2]))
        if edge:
            N = round(T / dt)
            whole = abs(T / dt - N) < 1e-9 and N >= 1
    else:
        T = (N + float(rng.choice([0.3, 0.5, 0.49999, 0.50001, 0.8, 0.01, 0.99]))) * dt
    implicit = solver in ("implicit", "crank-nicolson")
    mag = float(rng.uniform(0.05, 0.3 if implicit else 0.9)) / dt
    a = -mag if rng.random() < 0.8 else complex(-0.5 * mag, 0.6 * mag)
    autonomous = rng.random() < 0.6
    coeffs = (0, 0, 0, 1) if autonomous else (0.2, -0.3, 0.8, 2.0)
    ncell = int(rng.integers(1, 4))
    u0 = np.round(rng.uniform(0.5, 2, size=ncell), 3) + 0.0
    if isinstance(a, complex):
        u0 = u0 + 1j * np.round(rng.uniform(-1, 1, size=ncell), 3)
    ntr = int(rng.choice([0, 1, 2, 3, 4], p=[0.1, 0.3, 0.3, 0.2, 0.1]))
    trackers = [gen_interrupt(rng, dt, t0, T) for _ in range(ntr)]
    # post-step hook of the equation: none, in place (documented pattern) or returning a new array
    # (supported by the interpreted loop, which copies the result back; not generated for numba)
    # (only the generic interpreted loop documents the copy-back; Adams-Bashforth and all compiled loops
    # assume the documented in-place pattern - recorded in DESIGN.md as an observation, not judged)
    hook = str(rng.choice(["none", "none", "inplace", "newarray" if backend == "numpy" and solver != "adams-bashforth" else "inplace"]))
    return {"hook": hook, "solver": solver, "backend": backend, "dt": dt, "t0": t0, "T": T, "whole": bool(whole), "N": N, "a": a,
            "coeffs": coeffs, "autonomous": autonomous, "u0": u0, "trackers": trackers}


def execute(c, tracker_objs, t_end=None):
    import pde

    from .c06 import implicit_maxerror

    eq = probe.make_probe(c["a"], c["coeffs"], hook=None if c.get("hook", "none") == "none" else c["hook"])
    grid = pde.UnitGrid([len(c["u0"])])
    state = pde.ScalarField(grid, c["u0"], dtype=complex if np.iscomplexobj(c["u0"]) else float, label="probe")
    state._data_full[0] = state._data_full[-1] = 4242.0  # ghost cells are part of the caller's object
    before = state._data_full.tobytes()
    kwargs = {}
    if c["solver"] in ("implicit", "crank-nicolson"):
        kwargs = {"maxerror": implicit_maxerror({**c, "steps": max(1, round(c["T"] / c["dt"]))}), "maxiter": 2000}
    t_end = c["t0"] + c["T"] if t_end is None else t_end
    out, info = eq.solve(state, t_range=(c["t0"], t_end), dt=c["dt"], solver=c["solver"], backend=c["backend"],
                         tracker=tracker_objs, ret_info=True, **kwargs)
    untouched = state._data_full.tobytes() == before and state.label == "probe" and out is not state
    return eq, out, info, untouched


def lattice_check(c, eq, steps, res, case):
    """Step start times t_start + n*dt, no gaps or repeats (Euler: one evaluation per step)."""
    times = np.array([t for t, _ in eq.log])
    dt, t0 = c["dt"], c["t0"]
    pattern = {"euler": 1, "runge-kutta": 4}.get(c["solver"])
    if pattern is None:
        return
    if c["solver"] == "runge-kutta":
        times = times[::4]
    want = t0 + dt * np.arange(steps)
    if len(times) != steps:
        res.violation(f"{len(times)} steps observed by the equation, solver reports {steps}", case)
        return
    dev = np.abs(times - want)
    tol = 1e-9 * dt + 8e-16 * (abs(t0) + steps * dt) * 4
    if (dev > tol).any():
        k = int(np.argmax(dev))
        res.violation(f"step {k} starts at t={times[k]!r}, lattice point is {want[k]!r} (gap or repeat)", case)
        return
    res.count("lattices_checked")


def run_shard(spec: dict) -> ShardResult:
    res = ShardResult(spec)
    rng = np.random.default_rng([spec["seed"], 7, spec["index"]])
    Rec, _ = probe.make_trackers()
    backend = spec["backend"]
    for case_no in range(spec["cases"]):
        c = gen_run(rng, backend)
        case = {k: (v.tolist() if isinstance(v, np.ndarray) else v) for k, v in c.items()}
        case["u0"] = [str(x) for x in case["u0"]]
        case["a"] = str(c["a"])
        dt, t0, T = c["dt"], c["t0"], c["T"]
        t_end = t0 + T
        recs = [Rec(probe.make_interrupt(s), name=f"T{i}") for i, s in enumerate(c["trackers"])]
        try:
            eq1, out1, info1, untouched = execute(c, recs if recs else None)
        except Exception as exc:
            res.violation(f"run with trackers raised {type(exc).__name__}: {str(exc)[:300]}", case)
            continue
        if recs:
            res.count("runs_with_trackers")
            for s in c["trackers"]:
                res.seen("tracker_kinds_seen", s["kind"])
        if backend == "numba":
            res.count("numba_runs")
        steps = info1["solver"]["steps"]
        t_final = info1["controller"]["t_final"]
        if c["hook"] != "none":
            res.count("runs_with_post_step_hook")
            res.seen("hook_kinds_seen", c["hook"])
            calls = info1["solver"].get("post_step_data")
            if calls is not None and int(round(float(calls))) != steps:
                res.violation(f"post-step hook was called {calls} times in a run of {steps} steps", case)
        if not untouched:
            res.violation("the caller's initial state object was modified (or returned)", case)
        # ---- accounting --------------------------------------------------------------
        tol_t = 1e-9 * dt + 8e-16 * (abs(t0) + abs(t_end)) * (steps + 2)
        if abs(t_final - (t0 + steps * dt)) > tol_t:
            res.violation(f"t_final={t_final!r} != t_start + steps*dt = {t0 + steps * dt!r} (steps={steps})", case)
        if not abs(t_final - t_end) < dt * (1 + 1e-9):
            res.violation(f"|t_final - t_end| = {abs(t_final - t_end)!r} is not below dt={dt!r}", case)
        if c["whole"]:
            res.count("whole_ranges")
            if steps != c["N"]:
                res.violation(f"range of {c['N']} steps was covered with {steps} steps", case, trackers=c["trackers"])
            if abs(t_final - t_end) > tol_t:
                res.violation(f"whole range: t_final={t_final!r} != t_end={t_end!r}", case)
        else:
            res.count("partial_ranges")
        lattice_check(c, eq1, steps, res, case)
        # ---- differential: tracker-free run over the same range -------------------------
        try:
            eq2, out2, info2, _ = execute(c, None)
        except Exception as exc:
            res.violation(f"tracker-free run raised {type(exc).__name__}: {exc}", case)
            continue
        scale = float(np.abs(out2.data).max()) + float(np.abs(c["u0"]).max()) + 1e-300
        if info2["solver"]["steps"] == steps:
            if c["autonomous"]:
                res.count("bit_identical_checked")
                if out1.data.tobytes() != out2.data.tobytes():
                    res.violation(
                        "final state with read-only trackers is not bit-identical to the tracker-free run (autonomous rate)",
                        case, with_trackers=out1.data, without=out2.data, max_abs_diff=float(np.abs(out1.data - out2.data).max()),
                    )
            elif float(np.abs(out1.data - out2.data).max()) > 1e-11 * scale * (steps + 4):
                res.violation("final state with trackers differs from the tracker-free run beyond round-off", case,
                              with_trackers=out1.data, without=out2.data)
        elif c["whole"]:
            res.violation(f"trackers changed the number of steps: {steps} vs {info2['solver']['steps']} without", case)
        # ---- the final state is `steps` applications of the one-step map ------------------
        if not c["whole"] or info2["solver"]["steps"] != steps:
            try:
                eq3, out3, info3, _ = execute(c, None, t_end=t0 + steps * dt)
                if info3["solver"]["steps"] != steps:
                    res.notes.append(f"reference run over {steps} steps used {info3['solver']['steps']} steps")
                elif float(np.abs(out1.data - out3.data).max()) > 1e-11 * scale * (steps + 4):
                    res.violation(f"final state is not the one-step map applied {steps} times", case, have=out1.data, want=out3.data)
            except Exception as exc:
                res.violation(f"reference run raised {type(exc).__name__}: {exc}", case)
        incommensurate = any(s["kind"] != "constant" or abs(s["dt"] / dt - round(s["dt"] / dt)) > 1e-6 for s in c["trackers"])
        res.case((c["solver"], backend, c["whole"], c["autonomous"], tuple(sorted(s["kind"] for s in c["trackers"])), dt),
                 nontrivial=incommensurate and steps >= 3)
        if case_no < 2:
            res.sample({**case, "steps": steps, "t_final": t_final, "tracker_calls": [len(r.calls) for r in recs]})
    return res
