"""C20 — in-memory storage returns exactly what was stored, in order.

Events: every public operation of random histories on ``MemoryStorage`` (call and
result/exception recorded at the client boundary).  Oracle: a small sequential model
(list of (time, array copy) + write mode + data shape); after *every* operation the
storage's ``times`` and frame bytes must equal the model's, reads must return the model's
frames, and write probes (mutating appended sources and fields read back) must not reach
stored frames.
"""

from __future__ import annotations

import numpy as np

from ..runner import ShardResult

PROPERTY = "C20"
LEVEL = "exploration"
RULE = (
    "A case is one history of 5-30 operations on one MemoryStorage drawn from start_writing/"
    "append(explicit or implicit time)/end_writing/clear(±shape)/read(index, negative index, "
    "slice, iteration, items)/mutate-source/mutate-read-back/extract_field/extract_time_range/"
    "view_field/copy/apply/append-incompatible, over the write modes truncate, truncate_once, "
    "append, readonly, single fields (rank 0-2, real/complex) and collections, optionally with "
    "initial data. Distinct = distinct (write mode, field kind, initial data, sequence of "
    "operation names with outcome); non-trivial = at least two writing sessions or one clear, "
    "and at least one read after a write."
)
ASSUMPTIONS = [
    "append() is only generated when the storage is not read-only (the statement documents readonly through start_writing; append on a readonly storage is recorded as an observation in a counter, not judged)",
    "extract_time_range is only called while the stored times are non-decreasing and the storage is non-empty",
    "from_fields documents nothing about copying; its aliasing is recorded as an observation only",
]
REQUIRED = {
    "operations": 20000,
    "reads_checked": 3000,
    "write_probes": 1000,
    "sessions_second_or_later": 500,
    "expected_exceptions_seen": 300,
    "derived_views_checked": 800,
    "dtype_switches_between_sessions": 300,
    "refused_attempts_on_readonly": 100,
}


def plan(tier: str, seed: int) -> list[dict]:
    n = 16 if tier == "quick" else 64
    cases = 1500 if tier == "quick" else 12000
    return [{"kind": "histories", "mode": "nojit", "cases": cases, "timeout": 900 if tier == "quick" else 3000} for _ in range(n)]


class Model:
    """Sequential reference model of a memory storage."""

    def __init__(self, mode: str, times=(), frames=()):
        self.mode = mode
        self.times = list(times)
        self.frames = [np.array(f) for f in frames]
        self.shape = self.frames[0].shape if self.frames else None
        self.grid_id = None  # identity of the grid the storage is tied to
        self.template_known = False

    def start_writing(self, field_shape, grid_id):
        if self.mode == "readonly":
            return "error"
        if self.shape is not None and self.shape != field_shape:
            return "error"
        self.shape = field_shape
        self.grid_id = grid_id
        self.template_known = True
        if self.mode == "truncate_once":
            self.times, self.frames = [], []
            self.mode = "append"
        elif self.mode == "truncate":
            self.times, self.frames = [], []
        return None

    def append(self, data, time, grid_id):
        if time is None:
            time = 0 if not self.times else self.times[-1] + 1
        if self.grid_id is not None and self.grid_id != grid_id:
            return "error"
        if self.shape is None or self.shape != data.shape:
            if self.grid_id is None:
                self.grid_id = grid_id  # the implementation binds the grid before checking the shape
            return "error"
        if self.grid_id is None:
            self.grid_id = grid_id
        self.times.append(time)
        self.frames.append(np.array(data))
        return None

    def clear(self, clear_shape):
        self.times, self.frames = [], []
        if clear_shape:
            self.shape = None


def make_field(rng, kind: str, grid, dtype):
    import pde

    def rand(shape):
        d = rng.uniform(-1, 1, size=shape)
        if dtype == "complex128":
            d = d + 1j * rng.uniform(-1, 1, size=shape)
        return d.astype(dtype)

    dim = grid.dim
    if kind == "scalar":
        return pde.ScalarField(grid, rand(grid.shape), dtype=dtype, label="s")
    if kind == "vector":
        return pde.VectorField(grid, rand((dim, *grid.shape)), dtype=dtype, label="v")
    if kind == "tensor":
        return pde.Tensor2Field(grid, rand((dim, dim, *grid.shape)), dtype=dtype)
    return pde.FieldCollection(
        [pde.ScalarField(grid, rand(grid.shape), dtype=dtype, label="a"),
         pde.VectorField(grid, rand((dim, *grid.shape)), dtype=dtype, label="b"),
         pde.ScalarField(grid, rand(grid.shape), dtype=dtype, label="c")]
    )


def frames_equal(storage, model: Model):
    if len(storage) != len(model.times):
        return f"len(storage)={len(storage)} but model holds {len(model.times)} frames"
    if [float(t) for t in storage.times] != [float(t) for t in model.times]:
        return f"times {list(storage.times)} != model {model.times}"
    for i, (a, b) in enumerate(zip(storage.data, model.frames)):
        a = np.asarray(a)
        if a.shape != b.shape or a.dtype != b.dtype or a.tobytes() != b.tobytes():
            return f"frame {i} differs from the data appended (max |diff| {float(np.abs(a - b).max()) if a.shape == b.shape else 'shape'})"
    return None


def run_history(rng, res: ShardResult, hist_no: int):
    import pde

    mode0 = str(rng.choice(["truncate_once", "truncate", "append", "readonly"], p=[0.35, 0.25, 0.3, 0.1]))
    kind = str(rng.choice(["scalar", "vector", "tensor", "collection"], p=[0.35, 0.2, 0.1, 0.35]))
    dtype = str(rng.choice(["float64", "complex128", "float32"], p=[0.6, 0.2, 0.2]))
    grids = [pde.UnitGrid([3]), pde.UnitGrid([2, 3], periodic=[True, False]), pde.PolarSymGrid(2.0, 3),
             pde.CartesianGrid([[0, 1]], 3)]
    gi = int(rng.integers(3))
    grid = grids[gi]
    other_grid = grids[3] if gi == 0 else grids[0]
    src = make_field(rng, kind, grid, dtype)
    initial = rng.random() < 0.35 or mode0 == "readonly"
    log: list = []
    if initial:
        n0 = int(rng.integers(1, 4))
        t0 = sorted(float(np.round(t, 3)) for t in rng.uniform(0, 5, size=n0))
        d0 = [make_field(rng, kind, grid, dtype).data.copy() for _ in range(n0)]
        storage = pde.MemoryStorage(times=list(t0), data=[d.copy() for d in d0], field_obj=src, write_mode=mode0)
        model = Model(mode0, t0, d0)
        model.grid_id = 0  # field_obj binds the grid
        model.template_known = True
    else:
        storage = pde.MemoryStorage(write_mode=mode0)
        model = Model(mode0)
    log.append(("create", mode0, kind, dtype, "initial" if initial else "empty"))
    sessions = 0
    clears = 0
    read_after_write = False
    wrote = False
    t_cursor = float(np.round(rng.uniform(-1, 1), 2))
    n_ops = int(rng.integers(5, 31))
    ops = ["start", "start", "append", "append", "append", "append", "end", "clear", "read", "read", "read", "mutate_src", "mutate_back",
           "extract_field", "extract_time", "view_field", "copy", "apply", "append_bad", "start_bad"]

    def fail(msg, **detail):
        res.violation(msg, {"history": log}, **detail)

    for _ in range(n_ops):
        if model.shape is None and model.mode != "readonly" and rng.random() < 0.6:
            op = "start"  # an unopened storage accepts nothing else of interest
        else:
            op = str(rng.choice(ops))
        res.count("operations")
        try:
            if op == "start":
                if (len(model.times) == 0 or model.mode == "truncate") and rng.random() < 0.35:
                    # a storage without surviving frames is reused for a field of another dtype
                    # (same grid and shape, which is all that start_writing checks)
                    dtype = str(rng.choice([d for d in ("float64", "complex128", "float32") if d != dtype]))
                    src = make_field(rng, kind, grid, dtype)
                    log.append(("new source field", dtype))
                    res.count("dtype_switches_between_sessions")
                exp = model.start_writing(src.data.shape, 0)
                try:
                    storage.start_writing(src)
                    got = None
                except (RuntimeError, ValueError) as exc:
                    got = "error"
                    res.count("expected_exceptions_seen")
                log.append(("start_writing", got))
                if got != exp:
                    return fail(f"start_writing in mode {mode0}: implementation {'raised' if got else 'succeeded'}, model says {'error' if exp else 'success'}")
                if got is None:
                    sessions += 1
                    if sessions >= 2:
                        res.count("sessions_second_or_later")
                    if rng.random() < 0.3:  # a new simulation usually restarts the clock
                        t_cursor = float(np.round(rng.uniform(-1, 1), 2))
            elif op == "append":
                if model.mode == "readonly" or (storage.write_mode == "readonly"):
                    res.count("append_on_readonly_not_generated")
                    continue
                src.data = make_field(rng, kind, grid, dtype).data  # new content, same object
                implicit = rng.random() < 0.25
                if implicit:
                    time = None
                else:
                    t_cursor = float(np.round(t_cursor + rng.choice([0.0, 0.1, 0.5, 1.0, 2.5]), 3))
                    time = t_cursor
                exp = model.append(src.data, time, 0)
                try:
                    storage.append(src, time) if not implicit else storage.append(src)
                    got = None
                except (RuntimeError, ValueError):
                    got = "error"
                    res.count("expected_exceptions_seen")
                log.append(("append", "implicit" if implicit else time, got))
                if got != exp:
                    return fail(f"append: implementation {'raised' if got else 'succeeded'}, model says {'error' if exp else 'success'}")
                if got is None:
                    wrote = True
                    if implicit and model.times:
                        t_cursor = float(model.times[-1])
                    if storage.data and np.shares_memory(np.asarray(storage.data[-1]), src.data):
                        return fail("stored frame aliases the appended field's data")
            elif op == "end":
                storage.end_writing()
                log.append(("end_writing",))
            elif op == "clear":
                flag = bool(rng.random() < 0.4)
                model.clear(flag)
                storage.clear(clear_data_shape=flag)
                clears += 1
                log.append(("clear", flag))
            elif op == "read":
                n = len(model.times)
                how = str(rng.choice(["index", "negative", "out_of_range", "slice", "iter", "items", "len_shape"]))
                log.append(("read", how))
                if how == "len_shape":
                    if len(storage) != n:
                        return fail(f"len {len(storage)} != {n}")
                    continue
                if not model.template_known and n > 0:
                    continue  # no template stored: class of returned fields is guessed, outside the statement
                if how == "out_of_range":
                    for bad in (n, -n - 1):
                        try:
                            storage[bad]
                        except IndexError:
                            res.count("expected_exceptions_seen")
                        else:
                            return fail(f"storage[{bad}] with {n} frames did not raise IndexError")
                    continue
                if n == 0:
                    if list(storage.items()) != []:
                        return fail("items() of an empty storage is not empty")
                    continue
                if how in ("index", "negative"):
                    i = int(rng.integers(n))
                    f = storage[i - n if how == "negative" else i]
                    pairs = [(model.times[i], f, model.frames[i])]
                elif how == "slice":
                    lo, hi = sorted(int(x) for x in rng.integers(-n, n + 1, size=2))
                    step = int(rng.choice([1, 1, 2, -1]))
                    sl = slice(lo, hi, step) if step > 0 else slice(hi, lo, step)
                    got_fields = storage[sl]
                    idx = list(range(*sl.indices(n)))
                    if len(got_fields) != len(idx):
                        return fail(f"slice {sl} returned {len(got_fields)} fields, expected {len(idx)}")
                    pairs = [(model.times[j], f, model.frames[j]) for j, f in zip(idx, got_fields)]
                elif how == "iter":
                    got_fields = list(storage)
                    if len(got_fields) != n:
                        return fail("iteration length differs")
                    pairs = [(model.times[j], f, model.frames[j]) for j, f in enumerate(got_fields)]
                else:
                    items = list(storage.items())
                    if [float(t) for t, _ in items] != [float(t) for t in model.times]:
                        return fail(f"items() times {[t for t, _ in items]} != {model.times}")
                    pairs = [(model.times[j], f, model.frames[j]) for j, (_, f) in enumerate(items)]
                for t, f, frame in pairs:
                    if type(f) is not type(src):
                        return fail(f"read returned {type(f).__name__}, stored {type(src).__name__}")
                    if f.data.shape != frame.shape or not np.array_equal(f.data, frame):
                        return fail(f"read at t={t} returned data different from what was appended")
                    if f.grid != grid:
                        return fail("read returned a field on a different grid")
                    res.count("reads_checked")
                if wrote:
                    read_after_write = True
            elif op == "mutate_src":
                src.data += 1000.0  # in-place change of the source after appending
                src._data_full[...] *= 1.0
                res.count("write_probes")
                log.append(("mutate_source",))
            elif op == "mutate_back":
                if len(model.times) == 0 or not model.template_known:
                    continue
                i = int(rng.integers(len(model.times)))
                f = storage[i]
                f.data[...] = -777.0
                if kind == "collection":
                    f[0].data[...] = 555.0
                res.count("write_probes")
                log.append(("mutate_read_back", i))
            elif op == "extract_field":
                if kind != "collection" or not model.template_known:
                    continue
                which = [0, 1, 2, "a", "b", "c"][int(rng.integers(6))]
                j = which if isinstance(which, int) else "abc".index(which)
                ex = storage.extract_field(which)
                sl = src._slices[j]
                log.append(("extract_field", which))
                if [float(t) for t in ex.times] != [float(t) for t in model.times]:
                    return fail("extract_field: times differ")
                for k, frame in enumerate(model.frames):
                    want = frame[sl].reshape(src[j].data.shape)
                    if not np.array_equal(np.asarray(ex.data[k]), want) or not np.array_equal(ex[k].data, want):
                        return fail(f"extract_field({which!r}): frame {k} is not the member's data")
                    if type(ex[k]) is not type(src[j]):
                        return fail("extract_field: wrong field class")
                    res.count("derived_views_checked")
                if ex.data:  # documented as a copy: writing into it must not reach the original
                    np.asarray(ex.data[0])[...] = 4242.0
                    res.count("write_probes")
            elif op == "extract_time":
                n = len(model.times)
                if n == 0 or any(b < a for a, b in zip(model.times, model.times[1:])):
                    continue
                pts = sorted(set(model.times))
                choice = int(rng.integers(5))
                if choice == 0:
                    t_range, lo, hi = None, -np.inf, np.inf
                elif choice == 1:
                    hi = float(rng.choice(pts))
                    t_range, lo = hi, model.times[0]
                elif choice == 2:
                    lo, hi = sorted(float(x) for x in rng.choice(pts, size=2))
                    t_range = (lo, hi)
                elif choice == 3:
                    lo = float(rng.choice(pts)) + 1e-9
                    hi = lo + float(rng.uniform(0, 3))
                    t_range = (lo, hi)
                else:
                    lo, hi = float(rng.choice(pts)) - 0.05, float(rng.choice(pts)) + 0.05
                    t_range = (lo, hi)
                ex = storage.extract_time_range(t_range)
                log.append(("extract_time_range", t_range))
                idx = [k for k, t in enumerate(model.times) if lo <= t <= hi]
                if [float(t) for t in ex.times] != [float(model.times[k]) for k in idx]:
                    return fail(f"extract_time_range({t_range}): times {list(ex.times)} != expected {[model.times[k] for k in idx]}")
                for pos, k in enumerate(idx):
                    if not np.array_equal(np.asarray(ex.data[pos]), model.frames[k]):
                        return fail(f"extract_time_range({t_range}): frame {pos} differs")
                    res.count("derived_views_checked")
            elif op == "view_field":
                if kind != "collection" or not model.template_known or not model.times:
                    continue
                which = [0, 1, 2, "a", "b", "c"][int(rng.integers(6))]
                j = which if isinstance(which, int) else "abc".index(which)
                view = storage.view_field(which)
                log.append(("view_field", which))
                if len(view) != len(model.times) or [float(t) for t in view.times] != [float(t) for t in model.times]:
                    return fail("view_field: length/times differ")
                sl = src._slices[j]
                for k, (t, f) in enumerate(view.items()):
                    want = model.frames[k][sl].reshape(src[j].data.shape)
                    if float(t) != float(model.times[k]) or not np.array_equal(f.data, want) or not np.array_equal(view[k].data, want):
                        return fail(f"view_field({which!r}): item {k} differs")
                    res.count("derived_views_checked")
            elif op == "copy":
                if not model.template_known:
                    continue
                cp = storage.copy()
                log.append(("copy",))
                if [float(t) for t in cp.times] != [float(t) for t in model.times]:
                    return fail(f"copy: times {list(cp.times)} != {model.times}")
                for k, frame in enumerate(model.frames):
                    if not np.array_equal(np.asarray(cp.data[k]), frame):
                        return fail(f"copy: frame {k} differs")
                    if np.shares_memory(np.asarray(cp.data[k]), np.asarray(storage.data[k])):
                        return fail(f"copy: frame {k} aliases the original storage")
                    res.count("derived_views_checked")
                if cp.data:
                    np.asarray(cp.data[-1])[...] = 3131.0
                    res.count("write_probes")
            elif op == "apply":
                if not model.template_known:
                    continue
                two_args = bool(rng.random() < 0.5)
                func = (lambda f, t: f * 2 + t) if two_args else (lambda f: f * 2)
                out = storage.apply(func)
                log.append(("apply", "f,t" if two_args else "f"))
                if [float(t) for t in out.times] != [float(t) for t in model.times]:
                    return fail("apply: times differ")
                for k, frame in enumerate(model.frames):
                    want = frame * 2 + (model.times[k] if two_args else 0)
                    if not np.allclose(np.asarray(out.data[k]), want, rtol=1e-6 if dtype == "float32" else 1e-13, atol=0):
                        return fail(f"apply: frame {k} is not func(stored frame)")
                    res.count("derived_views_checked")
            elif op == "append_bad":
                if model.mode == "readonly":
                    continue
                if rng.random() < 0.5:
                    bad = make_field(rng, kind, other_grid, dtype)
                    exp = model.append(bad.data, 99.0, 1)
                    label = "other grid"
                else:
                    other_kind = "vector" if kind == "scalar" else "scalar"
                    bad = make_field(rng, other_kind, grid, dtype)
                    exp = model.append(bad.data, 99.0, 0)
                    label = "other rank"
                try:
                    storage.append(bad, 99.0)
                    got = None
                except (RuntimeError, ValueError):
                    got = "error"
                    res.count("expected_exceptions_seen")
                log.append(("append_incompatible", label, got))
                if got != exp:
                    return fail(f"append of incompatible field ({label}): implementation {'raised' if got else 'succeeded'}, model says {'error' if exp else 'success'}")
            elif op == "start_bad":
                if model.mode == "readonly" and len(model.times) > 0:
                    # a refused writing attempt must leave a read-only storage untouched, also when the
                    # offered field has the same data shape but another dtype, or lives on another grid
                    if rng.random() < 0.5 or gi == 2:
                        offered = make_field(rng, kind, grid, "float64")
                        offered = offered.copy(dtype=int) if hasattr(offered, "copy") and kind != "collection" else offered
                    else:
                        g2 = pde.CartesianGrid([[0, 2.0 * n] for n in grid.shape], list(grid.shape), periodic=list(grid.periodic))
                        offered = make_field(rng, kind, g2, dtype)
                    try:
                        storage.start_writing(offered)
                        got = None
                    except (RuntimeError, ValueError):
                        got = "error"
                        res.count("expected_exceptions_seen")
                    res.count("refused_attempts_on_readonly")
                    log.append(("start_writing on readonly with another field", got))
                    if got is None:
                        return fail("start_writing on a readonly storage succeeded")
                    read_check = list(storage)
                    for j, f in enumerate(read_check):
                        if f.grid != grid or not np.array_equal(f.data, model.frames[j]):
                            return fail(f"after a refused writing attempt frame {j} reads back differently (grid or data changed)")
                    continue
                if model.shape is None or model.mode == "readonly":
                    continue
                other_kind = "vector" if kind == "scalar" else "scalar"
                bad = make_field(rng, other_kind, grid, dtype)
                try:
                    storage.start_writing(bad)
                    got = None
                except (RuntimeError, ValueError):
                    got = "error"
                    res.count("expected_exceptions_seen")
                log.append(("start_writing_incompatible", got))
                if got is None:
                    return fail("start_writing with a field of incompatible shape succeeded")
        except Exception as exc:  # any undocumented exception
            log.append(("exception", op, type(exc).__name__, str(exc)[:200]))
            return fail(f"operation {op} raised undocumented {type(exc).__name__}: {exc}")
        err = frames_equal(storage, model)
        if err:
            return fail(f"after {log[-1]}: {err}")
    nontrivial = (sessions >= 2 or clears >= 1) and read_after_write
    res.case((mode0, kind, initial, [tuple(str(x) for x in e[:1]) + tuple(str(x) for x in e[-1:]) for e in log]), nontrivial=nontrivial)
    res.seen("modes", mode0)
    res.seen("kinds", kind + "/" + dtype)
    if hist_no < 2:
        res.sample({"history": log})


def observe_from_fields(rng, res: ShardResult):
    """from_fields documents nothing about copying: record what it does (not judged)."""
    import pde

    grid = pde.UnitGrid([3])
    fields = [pde.ScalarField(grid, rng.uniform(size=3)) for _ in range(2)]
    st = pde.MemoryStorage.from_fields([0, 1], fields)
    alias = any(np.shares_memory(np.asarray(d), f.data) for d, f in zip(st.data, fields))
    res.count("observation_from_fields_aliases_sources" if alias else "observation_from_fields_copies_sources")
    if [float(t) for t in st.times] != [0.0, 1.0] or not all(np.array_equal(st[i].data, fields[i].data) for i in range(2)):
        res.violation("from_fields does not return the given fields", {"route": "from_fields"})


def run_shard(spec: dict) -> ShardResult:
    res = ShardResult(spec)
    rng = np.random.default_rng([spec["seed"], 20, spec["index"]])
    observe_from_fields(rng, res)
    for i in range(spec["cases"]):
        run_history(rng, res, i)
    return res
