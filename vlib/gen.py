"""Seeded generators shared by the checks: grids (as JSON-able specs), fields, helpers."""

from __future__ import annotations

import numpy as np

GRID_CLASSES = ["UnitGrid", "CartesianGrid", "PolarSymGrid", "SphericalSymGrid", "CylindricalSymGrid"]


def make_grid(spec: dict):
    """Instantiate the grid described by `spec` (imports pde lazily)."""
    import pde

    cls = spec["cls"]
    if cls == "UnitGrid":
        return pde.UnitGrid(spec["shape"], periodic=spec.get("periodic", False))
    if cls == "CartesianGrid":
        return pde.CartesianGrid(spec["bounds"], spec["shape"], periodic=spec.get("periodic", False))
    if cls == "PolarSymGrid":
        r = spec["radius"]
        return pde.PolarSymGrid(tuple(r) if isinstance(r, (list, tuple)) else r, spec["shape"])
    if cls == "SphericalSymGrid":
        r = spec["radius"]
        return pde.SphericalSymGrid(tuple(r) if isinstance(r, (list, tuple)) else r, spec["shape"])
    if cls == "CylindricalSymGrid":
        r = spec["radius"]
        return pde.CylindricalSymGrid(
            tuple(r) if isinstance(r, (list, tuple)) else r,
            tuple(spec["bounds_z"]),
            spec["shape"],
            periodic_z=spec.get("periodic_z", False),
        )
    raise ValueError(cls)


def grid_bounds(spec: dict) -> list[tuple[float, float]]:
    """Bounds per grid axis implied by the spec (independent of the package)."""
    cls = spec["cls"]
    if cls == "UnitGrid":
        return [(0.0, float(n)) for n in spec["shape"]]
    if cls == "CartesianGrid":
        return [(float(a), float(b)) for a, b in spec["bounds"]]
    r = spec["radius"]
    rb = (float(r[0]), float(r[1])) if isinstance(r, (list, tuple)) else (0.0, float(r))
    if cls == "CylindricalSymGrid":
        return [rb, (float(spec["bounds_z"][0]), float(spec["bounds_z"][1]))]
    return [rb]


def grid_shape(spec: dict) -> tuple[int, ...]:
    s = spec["shape"]
    return (int(s),) if isinstance(s, (int, np.integer)) else tuple(int(x) for x in s)


def grid_periodic(spec: dict) -> list[bool]:
    cls = spec["cls"]
    n = len(grid_shape(spec))
    if cls in ("UnitGrid", "CartesianGrid"):
        p = spec.get("periodic", False)
        return [bool(p)] * n if isinstance(p, (bool, np.bool_)) else [bool(x) for x in p]
    if cls == "CylindricalSymGrid":
        return [False, bool(spec.get("periodic_z", False))]
    return [False]


def grid_dim(spec: dict) -> int:
    return {"PolarSymGrid": 2, "SphericalSymGrid": 3, "CylindricalSymGrid": 3}.get(spec["cls"], len(grid_shape(spec)))


def _extent(rng) -> tuple[float, float]:
    """Random interval incl. negative, tiny and large extents."""
    kind = rng.integers(6)
    if kind == 0:
        return (0.0, 1.0)
    if kind == 1:
        lo = float(np.round(rng.uniform(-3, 3), 2))
        return (lo, lo + float(np.round(rng.uniform(0.3, 4), 2)))
    if kind == 2:
        lo = float(np.round(rng.uniform(-1, 1), 3))
        return (lo, lo + 10 ** rng.uniform(-3, -1))
    if kind == 3:
        lo = float(np.round(rng.uniform(-1e3, 1e3), 0))
        return (lo, lo + float(np.round(10 ** rng.uniform(1, 3), 1)))
    if kind == 4:
        hi = float(np.round(rng.uniform(-3, -0.1), 2))
        return (hi - float(np.round(rng.uniform(0.3, 3), 2)), hi)
    return (float(rng.uniform(-2, 0)), float(rng.uniform(0.5, 2)))


def _radius(rng, hole: bool | None):
    if hole is None:
        hole = rng.random() < 0.5
    ro = float(np.round(10 ** rng.uniform(-1, 1.5), 3))
    if hole:
        ri = float(np.round(ro * rng.uniform(0.05, 0.9), 4))
        if ri <= 0 or ri >= ro:
            ri = ro / 2
        return [ri, ro]
    return ro


def random_grid_spec(
    rng,
    classes=GRID_CLASSES,
    dims=(1, 2, 3),
    sizes=(1, 2, 3, 5, 8),
    hole=None,
    periodic=None,
    max_cells=600,
    tame=False,
) -> dict:
    """Random grid spec.  `tame=True` restricts bounds to O(1) extents."""
    cls = str(rng.choice(list(classes)))
    if cls in ("UnitGrid", "CartesianGrid"):
        nd = int(rng.choice(list(dims)))
        while True:
            shape = [int(s) for s in rng.choice(list(sizes), size=nd, replace=nd > len(sizes))]
            if int(np.prod(shape)) <= max_cells:
                break
        if nd > 1 and len(set(shape)) < nd and len(sizes) >= nd and rng.random() < 0.8:
            shape = [int(s) for s in rng.choice(list(sizes), size=nd, replace=False)]
        per = [bool(rng.random() < 0.4) if periodic is None else bool(periodic) for _ in range(nd)]
        if cls == "UnitGrid":
            return {"cls": cls, "shape": shape, "periodic": per}
        bounds = [list((0.0, float(np.round(rng.uniform(0.5, 3), 2))) if tame else _extent(rng)) for _ in range(nd)]
        return {"cls": cls, "bounds": bounds, "shape": shape, "periodic": per}
    if cls in ("PolarSymGrid", "SphericalSymGrid"):
        rad = _radius(rng, hole)
        if tame:
            rad = [1.0, 2.5] if isinstance(rad, list) else 2.0
        return {"cls": cls, "radius": rad, "shape": int(rng.choice(list(sizes)))}
    rad = _radius(rng, hole)
    bz = list((0.0, float(np.round(rng.uniform(0.5, 3), 2))) if tame else _extent(rng))
    if tame:
        rad = [1.0, 2.5] if isinstance(rad, list) else 2.0
    shape = [int(s) for s in rng.choice(list(sizes), size=2, replace=len(sizes) < 2)]
    pz = bool(rng.random() < 0.4) if periodic is None else bool(periodic)
    return {"cls": cls, "radius": rad, "bounds_z": bz, "shape": shape, "periodic_z": pz}


def fill_random(rng, arr: np.ndarray, complex_: bool = False) -> None:
    """Fill the complete array (incl. ghost cells/corners) with generic distinct values."""
    arr[...] = rng.uniform(-1, 1, size=arr.shape)
    if complex_ and np.iscomplexobj(arr):
        arr[...] += 1j * rng.uniform(-1, 1, size=arr.shape)


def digest(arr) -> str:
    import hashlib

    a = np.ascontiguousarray(arr)
    return hashlib.sha1(a.tobytes() + str(a.shape).encode() + str(a.dtype).encode()).hexdigest()[:16]
