"""Shard planner, subprocess pool, merge step and verdict logic shared by all checks.

A check module ``vlib.checks.cNN`` provides

``PROPERTY``            property id, e.g. ``"C09"``
``LEVEL``               evidence level (``exploration`` / ``fault_enumeration``)
``RULE``                how cases are generated and what makes one distinct/non-trivial
``ASSUMPTIONS``         list of strings
``REQUIRED``            dict counter name -> minimal value (non-vacuity; below ⇒ inconclusive)
``plan(tier, seed)``    list of shard specs (JSON-able dicts; keys ``mode``, ``timeout``,
                        ``weight`` are interpreted by the runner)
``run_shard(spec)``     executed in a fresh interpreter; returns a ``ShardResult.as_dict()``

The runner never looks at wall-clock time to decide a verdict; a shard whose watchdog
fires is retried once and then reported as inconclusive.
"""

from __future__ import annotations

import argparse
import hashlib
import importlib
import json
import os
import subprocess
import sys
import tempfile
import threading
import time
from concurrent.futures import ThreadPoolExecutor
from pathlib import Path

VERIF = Path(__file__).resolve().parent.parent
PY = os.environ.get("VERIF_PYTHON", "/venv/bin/python")
CORES = int(os.environ.get("VERIF_CORES", str(min(16, os.cpu_count() or 1))))


# --------------------------------------------------------------------------------------
# data exchanged between shard processes and the runner


class ShardResult:
    """Accumulates what one shard observed."""

    MAX_SAMPLES = 4
    MAX_VIOLATIONS = 12

    def __init__(self, spec: dict):
        self.spec = spec
        self.evaluations = 0
        self.keys: set[str] = set()
        self.counters: dict[str, int] = {}
        self.sets: dict[str, set] = {}
        self.samples: list = []
        self.violations: list[dict] = []
        self.n_violations = 0
        self.notes: list[str] = []
        self.max_stats: dict[str, float] = {}

    # -- bookkeeping ------------------------------------------------------------------
    def count(self, name: str, n: int = 1) -> None:
        self.counters[name] = self.counters.get(name, 0) + int(n)

    def seen(self, name: str, value) -> None:
        """Record a member of a named set (e.g. operators seen, thread counts seen)."""
        self.sets.setdefault(name, set()).add(str(value))

    def stat_max(self, name: str, value: float) -> None:
        value = float(value)
        if value == value and value > self.max_stats.get(name, float("-inf")):
            self.max_stats[name] = value

    def case(self, key, nontrivial: bool = True, n: int = 1) -> None:
        """Register one evaluated case; `key` identifies its *structure*."""
        self.evaluations += n
        if nontrivial:
            if not isinstance(key, str):
                key = json.dumps(key, sort_keys=True, default=str)
            self.keys.add(hashlib.sha1(key.encode()).hexdigest()[:12])

    def sample(self, obj) -> None:
        if len(self.samples) < self.MAX_SAMPLES:
            self.samples.append(jsonable(obj))

    def violation(self, what: str, case, mechanism: str | None = None, **detail) -> None:
        """Record a violation witness.

        `mechanism` names the alternative model that explains the deviation (if the
        check identified one); known findings are matched on it, never on values.
        """
        self.n_violations += 1
        if len(self.violations) < self.MAX_VIOLATIONS:
            self.violations.append(
                {
                    "what": what,
                    "mechanism": mechanism,
                    "case": jsonable(case),
                    "detail": jsonable(detail),
                }
            )

    def as_dict(self) -> dict:
        return {
            "evaluations": self.evaluations,
            "keys": sorted(self.keys),
            "counters": self.counters,
            "sets": {k: sorted(v) for k, v in self.sets.items()},
            "samples": self.samples,
            "violations": self.violations,
            "n_violations": self.n_violations,
            "notes": self.notes[:20],
            "max_stats": self.max_stats,
        }


def jsonable(obj, depth: int = 0):
    """Best-effort conversion into JSON-able data (numpy aware)."""
    import numpy as np

    if depth > 8:
        return repr(obj)[:200]
    if obj is None or isinstance(obj, (bool, int, str)):
        return obj
    if isinstance(obj, float):
        return obj if obj == obj and abs(obj) != float("inf") else repr(obj)
    if isinstance(obj, complex):
        return {"re": obj.real, "im": obj.imag}
    if isinstance(obj, (np.bool_,)):
        return bool(obj)
    if isinstance(obj, np.integer):
        return int(obj)
    if isinstance(obj, np.floating):
        return jsonable(float(obj))
    if isinstance(obj, np.complexfloating):
        return jsonable(complex(obj))
    if isinstance(obj, np.ndarray):
        if obj.size > 64:
            return {"ndarray": list(obj.shape), "dtype": str(obj.dtype),
                    "head": jsonable(obj.ravel()[:16].tolist(), depth + 1)}
        return jsonable(obj.tolist(), depth + 1)
    if isinstance(obj, dict):
        return {str(k): jsonable(v, depth + 1) for k, v in obj.items()}
    if isinstance(obj, (list, tuple, set, frozenset)):
        return [jsonable(v, depth + 1) for v in obj]
    return repr(obj)[:300]


# --------------------------------------------------------------------------------------
# shard execution


MODE_ENV = {
    "jit": {},
    "nojit": {"NUMBA_DISABLE_JIT": "1"},
    "boundscheck": {"NUMBA_BOUNDSCHECK": "1"},
    "mt": {},  # multithreading is configured inside the shard before operators are built
}


def shard_env(spec: dict) -> dict:
    env = dict(os.environ)
    repo = os.environ.get("VERIF_REPO", "/repo")
    env["PYTHONPATH"] = os.pathsep.join([repo, str(VERIF)])
    env["PYTHONHASHSEED"] = "0"
    env["PY_PDE_VERIF"] = "1"  # guard of repository hooks (none exist at present)
    env["MPLBACKEND"] = "Agg"
    env.pop("NUMBA_DISABLE_JIT", None)
    env.pop("NUMBA_BOUNDSCHECK", None)
    env.update(MODE_ENV[spec.get("mode", "jit")])
    threads = spec.get("threads")
    if threads:
        env["NUMBA_NUM_THREADS"] = str(threads)
    elif spec.get("mode") != "mt":
        env["NUMBA_NUM_THREADS"] = "1" if spec.get("mode") == "nojit" else "2"
    env["OMP_NUM_THREADS"] = env.get("NUMBA_NUM_THREADS", "16")
    env.update(spec.get("env", {}))
    return env


def run_one(module: str, spec: dict, tmpdir: str) -> dict:
    """Run one shard in a fresh interpreter; returns its result dict."""
    idx = spec["index"]
    timeout = spec.get("timeout", 600)
    for attempt in (1, 2):
        spec_path = os.path.join(tmpdir, f"spec_{idx}.json")
        out_path = os.path.join(tmpdir, f"out_{idx}.json")
        with open(spec_path, "w") as fh:
            json.dump(spec, fh)
        if os.path.exists(out_path):
            os.remove(out_path)
        t0 = time.time()
        try:
            proc = subprocess.run(
                [PY, "-X", "faulthandler", "-m", "vlib.shard", module, spec_path, out_path],
                cwd=str(VERIF), env=shard_env(spec), timeout=timeout,
                stdout=subprocess.PIPE, stderr=subprocess.STDOUT, text=True,
            )
            status, output = proc.returncode, proc.stdout
        except subprocess.TimeoutExpired as exc:
            status = "timeout"
            output = exc.stdout if isinstance(exc.stdout, str) else (exc.stdout or b"").decode(errors="replace")
        wall = time.time() - t0
        if status == 0 and os.path.exists(out_path):
            with open(out_path) as fh:
                res = json.load(fh)
            res["wall_s"] = wall
            res["status"] = "ok"
            res["spec"] = spec
            return res
        if status != "timeout" and not (isinstance(status, int) and status < 0):
            break  # a shard that exits with an error is deterministic; one killed by a signal (observed once:
            # SIGSEGV of one shard on a heavily loaded machine, not reproducible) or timed out is retried once
    return {
        "status": "failed" if status != "timeout" else "timeout",
        "spec": spec, "returncode": status, "output_tail": (output or "")[-3000:],
        "evaluations": 0, "keys": [], "counters": {}, "sets": {}, "samples": [],
        "violations": [], "n_violations": 0, "notes": [], "max_stats": {}, "wall_s": wall,
    }


def run_pool(module: str, specs: list[dict]) -> list[dict]:
    """Run all shards respecting their CPU weights."""
    results: list[dict | None] = [None] * len(specs)
    cond = threading.Condition()
    free = [CORES]

    def worker(i: int) -> None:
        w = min(CORES, max(1, int(specs[i].get("weight", 1))))
        with cond:
            while free[0] < w:
                cond.wait()
            free[0] -= w
        try:
            results[i] = run_one(module, specs[i], tmpdir)
        finally:
            with cond:
                free[0] += w
                cond.notify_all()

    with tempfile.TemporaryDirectory(prefix="verif_shards_") as tmpdir:
        with ThreadPoolExecutor(max_workers=max(CORES, 1) * 2) as pool:
            list(pool.map(worker, range(len(specs))))
    return results  # type: ignore


# --------------------------------------------------------------------------------------
# known findings


def load_known() -> list[dict]:
    path = VERIF / "known_findings.json"
    if not path.exists():
        return []
    with open(path) as fh:
        return json.load(fh).get("findings", [])


def match_known(prop: str, violation: dict, known: list[dict]) -> dict | None:
    """A violation is a known finding iff the check attributed it to a mechanism that is
    listed (status ``known``) for this property.  ``fixed`` entries suppress nothing."""
    mech = violation.get("mechanism")
    if not mech:
        return None
    for entry in known:
        if entry.get("status") == "known" and entry.get("property") == prop and entry.get("mechanism") == mech:
            return entry
    return None


# --------------------------------------------------------------------------------------
# main


def write_replay(prop: str, spec: dict, violation: dict) -> str:
    body = {"property": prop, "spec": spec, "violation": violation}
    text = json.dumps(body, indent=1, sort_keys=True, default=str)
    digest = hashlib.sha1(text.encode()).hexdigest()[:16]
    path = VERIF / "replays" / prop / f"{digest}.json"
    path.parent.mkdir(parents=True, exist_ok=True)
    path.write_text(text)
    return str(path)


def main(argv=None) -> int:
    ap = argparse.ArgumentParser(prog="check")
    ap.add_argument("property")
    ap.add_argument("--tier", choices=["quick", "thorough"], default=None)
    ap.add_argument("--replay", default=None)
    ap.add_argument("--only", default=None, help="run only shards whose kind matches")
    ap.add_argument("--no-evidence", action="store_true")
    args = ap.parse_args(argv)

    prop = args.property.upper()
    tier = args.tier or os.environ.get("VERIF_TIER") or "quick"
    if tier not in ("quick", "thorough"):
        tier = "quick"
    seed = int(os.environ.get("VERIF_SEED", "0") or 0)
    module = f"vlib.checks.{prop.lower()}"
    mod = importlib.import_module(module)
    t_start = time.time()

    if args.replay:
        with open(args.replay) as fh:
            rep = json.load(fh)
        spec = rep["spec"]
        spec["index"] = spec.get("index", 0)
        specs = [spec]
    else:
        specs = mod.plan(tier, seed)
        for i, spec in enumerate(specs):
            spec.setdefault("index", i)
            spec.setdefault("seed", seed)
            spec.setdefault("tier", tier)
        if args.only:
            specs = [s for s in specs if args.only in str(s.get("kind", ""))]

    results = run_pool(module, specs)

    # ---- merge ----------------------------------------------------------------------
    evaluations = 0
    keys: set[str] = set()
    counters: dict[str, int] = {}
    sets: dict[str, set] = {}
    samples: list = []
    max_stats: dict[str, float] = {}
    per_mode: dict[str, int] = {}
    failed_shards = []
    violations = []  # (spec, violation)
    n_violations = 0
    for res in results:
        mode = res["spec"].get("mode", "jit")
        if res["status"] != "ok":
            failed_shards.append(res)
            continue
        evaluations += res["evaluations"]
        per_mode[mode] = per_mode.get(mode, 0) + res["evaluations"]
        keys.update(res["keys"])
        for k, v in res["counters"].items():
            counters[k] = counters.get(k, 0) + v
        for k, v in res["sets"].items():
            sets.setdefault(k, set()).update(v)
        for k, v in res["max_stats"].items():
            max_stats[k] = max(max_stats.get(k, float("-inf")), v)
        for s in res["samples"]:
            if len(samples) < 8:
                samples.append(s)
        n_violations += res["n_violations"]
        for v in res["violations"]:
            violations.append((res["spec"], v))

    known = load_known()
    known_seen: dict[str, int] = {}
    new_violations = []
    for spec, v in violations:
        entry = match_known(prop, v, known)
        if entry is not None:
            known_seen[entry["id"]] = known_seen.get(entry["id"], 0) + 1
        else:
            new_violations.append((spec, v))

    # ---- verdict --------------------------------------------------------------------
    inconclusive_reasons = []
    for res in failed_shards:
        inconclusive_reasons.append(
            f"shard {res['spec'].get('index')} ({res['spec'].get('kind')}, mode "
            f"{res['spec'].get('mode', 'jit')}) {res['status']} rc={res.get('returncode')}"
        )
    required = dict(getattr(mod, "REQUIRED", {}))
    if hasattr(mod, "required"):
        required = mod.required(tier)
    if not args.replay and not args.only:
        for name, minimum in required.items():
            have = counters.get(name, len(sets.get(name, ())))
            if name == "distinct_nontrivial":
                have = len(keys)
            if name == "evaluations":
                have = evaluations
            if have < minimum:
                inconclusive_reasons.append(f"monitor counter {name}={have} < required {minimum}")

    for entry_id, n in sorted(known_seen.items()):
        entry = next(e for e in known if e["id"] == entry_id)
        print(f"KNOWN-FINDING: property={prop} {entry['what']} [{entry_id}; {n} witness(es) this run]")

    replay_paths = []
    seen_what = set()
    for spec, v in new_violations:
        sig = (v["what"], v.get("mechanism"))
        if sig in seen_what and len(replay_paths) >= 3:
            continue
        seen_what.add(sig)
        path = write_replay(prop, spec, v)
        replay_paths.append(path)
        print(f"VIOLATION property={prop} replay={path}")
        print(f"  what: {v['what']}")
        print(f"  case: {json.dumps(v['case'], default=str)[:600]}")
        print(f"  detail: {json.dumps(v['detail'], default=str)[:900]}")

    wall = time.time() - t_start
    coverage = {
        "evaluations": evaluations,
        "distinct_nontrivial": len(keys),
        "rule": getattr(mod, "RULE", ""),
        "samples": samples,
        "exhaustive": False,
        "evaluations_per_mode": per_mode,
        "monitor_counters": counters,
        "observed_sets": {k: sorted(v)[:60] for k, v in sets.items()},
        "observed_set_sizes": {k: len(v) for k, v in sets.items()},
        "max_observed": max_stats,
        "shards": len(specs),
        "shards_failed_or_timed_out": len(failed_shards),
        "known_findings_seen": known_seen,
        "inconclusive_reasons": inconclusive_reasons,
        "required_counters": required,
    }
    if hasattr(mod, "coverage_extra"):
        coverage.update(mod.coverage_extra(tier))
    evidence = {
        "property_id": prop,
        "tier": tier,
        "seed": seed,
        "level": getattr(mod, "LEVEL", "exploration"),
        "coverage": coverage,
        "assumptions": list(getattr(mod, "ASSUMPTIONS", [])),
        "wall_s": round(wall, 2),
        "violations": len(new_violations),
    }
    if not args.no_evidence and not args.replay and not args.only:
        out = VERIF / "evidence" / f"{prop}.json"
        out.parent.mkdir(exist_ok=True)
        out.write_text(json.dumps(evidence, indent=1, sort_keys=True, default=str) + "\n")

    short = {k: counters[k] for k in sorted(counters)[:14]}
    print(
        f"[{prop} {tier} seed={seed}] shards={len(specs)} evaluations={evaluations} "
        f"distinct_nontrivial={len(keys)} violations={len(new_violations)} "
        f"known={sum(known_seen.values())} wall={wall:.1f}s modes={per_mode}"
    )
    print(f"  counters: {short}")
    for res in failed_shards[:5]:
        print(f"  shard problem: {res['status']} rc={res.get('returncode')} spec={json.dumps(res['spec'])[:300]}")
        print("  | " + "\n  | ".join((res.get("output_tail") or "").splitlines()[-15:]))

    if new_violations:
        return 1
    if inconclusive_reasons:
        for r in inconclusive_reasons:
            print(f"INCONCLUSIVE property={prop} {r}")
        return 2
    print(f"HELD property={prop} on everything observed")
    return 0


if __name__ == "__main__":
    sys.exit(main())
