"""Entry point of one shard process: ``python -m vlib.shard <module> <spec.json> <out.json>``."""

from __future__ import annotations

import importlib
import json
import sys
import warnings


def main() -> int:
    module, spec_path, out_path = sys.argv[1:4]
    with open(spec_path) as fh:
        spec = json.load(fh)
    warnings.filterwarnings("ignore")
    if spec.get("mode") == "mt":
        # must happen before any operator is built and is never changed afterwards
        from pde.tools.config import config

        config["backend.numba.multithreading"] = "always"
        config["backend.numba.multithreading_threshold"] = 1
    mod = importlib.import_module(module)
    result = mod.run_shard(spec)
    if hasattr(result, "as_dict"):
        result = result.as_dict()
    with open(out_path, "w") as fh:
        json.dump(result, fh, default=str)
    return 0


if __name__ == "__main__":
    sys.exit(main())
