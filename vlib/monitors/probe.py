"""Probes for the time-stepping machinery.

``ProbePDE``          du/dt = a*u + f(t) with ``f(t) = c0 + c1*t + c2*sin(w*t)``; every
                      evaluation of the right-hand side — interpreted (numpy backend) or from
                      inside compiled steppers (numba ``objmode`` call-back) — appends
                      ``(t, checksum(u))`` to an event log kept in this module.
``RecordingTracker``  read-only tracker logging (time, state bytes digest, call index) of every
                      ``initialize`` / ``handle`` / ``finalize``.
``StopInjector``      recording tracker that raises StopIteration / FinishedSimulation at its
                      k-th ``handle`` call.
"""

from __future__ import annotations

import math

import numpy as np

LOGS: dict[int, list] = {}
_NEXT = [0]


def new_log() -> int:
    _NEXT[0] += 1
    LOGS[_NEXT[0]] = []
    return _NEXT[0]


def _record(pid, t, s):
    LOGS[pid].append((float(t), complex(s)))


def make_probe(a, coeffs=(0.0, 0.0, 0.0, 1.0), complex_valued=False, identity=False, hook=None):
    """Create a ProbePDE instance (class is built lazily so importing this module does not
    import the package).  ``identity=True`` (only for a == 1 without forcing) makes the
    right-hand side return its argument itself, as the package's own compiled expression for
    ``PDE({"c": "c"})`` does: the stepper then holds a rate that aliases the state buffer."""
    # ``hook``: None, "inplace" (post-step hook scaling the state in place, the documented pattern)
    # or "newarray" (hook returning a new array, which the interpreted stepping loop supports by
    # copying the result back); the hook counts its calls in ``post_step_data``
    if identity:
        assert a == 1 and not any(coeffs[:3])
    import numba as nb
    from pde.pdes.base import PDEBase

    class ProbePDE(PDEBase):
        def __init__(self, a, coeffs):
            super().__init__()
            self.a = a
            self.coeffs = tuple(float(c) for c in coeffs)
            self.pid = new_log()
            self.complex_valued = bool(complex_valued or isinstance(a, complex))

        @property
        def log(self):
            return LOGS[self.pid]

        def forcing(self, t):
            c0, c1, c2, w = self.coeffs
            return c0 + c1 * t + c2 * math.sin(w * t)

        def evolution_rate(self, state, t=0):
            _record(self.pid, t, state.data.sum())
            if identity:
                return state.copy()  # the interpreted route hands out its working buffer
            return self.a * state + self.forcing(t)

        def make_post_step_hook(self, state, backend):
            if hook is None:
                raise NotImplementedError
            if hook == "inplace":

                def post_step_hook(state_data, t, post_step_data):
                    state_data *= 0.97
                    return state_data, post_step_data + 1.0

            else:

                def post_step_hook(state_data, t, post_step_data):
                    return state_data * 0.97, post_step_data + 1.0

            return post_step_hook, 0.0

        def make_evolution_rate(self, state, backend):
            a, pid = self.a, self.pid
            c0, c1, c2, w = self.coeffs
            if identity and backend.name == "numpy":

                def rhs(arr, t):
                    _record(pid, t, arr.sum())
                    return arr.copy()

                return rhs

            if identity:

                def rhs(arr, t):
                    s = arr.sum()
                    with nb.objmode():
                        _record(pid, t, s)
                    return arr

                return rhs

            if backend.name == "numpy":

                def rhs(arr, t):
                    _record(pid, t, arr.sum())
                    return a * arr + (c0 + c1 * t + c2 * math.sin(w * t))

                return rhs

            def rhs(arr, t):
                s = arr.sum()
                with nb.objmode():
                    _record(pid, t, s)
                return a * arr + (c0 + c1 * t + c2 * math.sin(w * t))

            return rhs

    return ProbePDE(a, coeffs)


def make_trackers():
    """Return (RecordingTracker, StopInjector) classes bound to the package's TrackerBase."""
    from pde.trackers.base import FinishedSimulation, TrackerBase

    class RecordingTracker(TrackerBase):
        def __init__(self, interrupts, name="rec"):
            super().__init__(interrupts=interrupts)
            self.name_ = name
            self.calls: list = []  # (time, state digest, state sum)
            self.n_initialize = 0
            self.n_finalize = 0
            self.first_time = None
            self.events: list = []  # shared, ordered log may be attached

        def initialize(self, field, info=None):
            self.n_initialize += 1
            self.first_time = super().initialize(field, info)
            self.events.append(("initialize", self.name_))
            return self.first_time

        def handle(self, field, t):
            self.calls.append((float(t), field.data.tobytes(), complex(field.data.sum())))
            self.events.append(("handle", self.name_, float(t)))

        def finalize(self, info=None):
            self.n_finalize += 1
            self.events.append(("finalize", self.name_))
            super().finalize(info)

    class StopInjector(RecordingTracker):
        def __init__(self, interrupts, name="stop", stop_at_call=None, kind="StopIteration", value=None):
            super().__init__(interrupts, name=name)
            self.stop_at_call = stop_at_call
            self.kind = kind
            self.value = value
            self.raised_at = None

        def handle(self, field, t):
            super().handle(field, t)
            if self.stop_at_call is not None and len(self.calls) - 1 == self.stop_at_call:
                self.raised_at = float(t)
                exc_cls = FinishedSimulation if self.kind == "FinishedSimulation" else StopIteration
                if self.value is None:
                    raise exc_cls
                raise exc_cls(self.value)

    return RecordingTracker, StopInjector


def make_interrupt(spec):
    """Interrupt object/datum from a JSON-able spec."""
    from pde.trackers import interrupts as I

    kind = spec["kind"]
    if kind == "constant":
        if spec.get("t_start") is None and spec.get("as_number"):
            return spec["dt"]
        return I.ConstantInterrupts(spec["dt"], t_start=spec.get("t_start"))
    if kind == "fixed":
        return I.FixedInterrupts(list(spec["points"]))
    if kind == "logarithmic":
        return I.LogarithmicInterrupts(spec["dt"], spec["factor"], t_start=spec.get("t_start"))
    if kind == "geometric":
        return I.GeometricInterrupts(spec["scale"], spec["factor"])
    raise ValueError(kind)
