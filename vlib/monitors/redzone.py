"""Red-zone buffers: arrays handed to kernels are interior views of larger poisoned buffers.

After a kernel call the monitor asserts that (a) no poison leaked into the result (an
out-of-bounds *read* with non-zero weight puts NaN into the output), (b) the margins of the
output buffer and (c) the complete input buffer are bit-unchanged (out-of-bounds or stray
*write*).  Like ASan red zones this only sees accesses adjacent to the array.
"""

from __future__ import annotations

import numpy as np

MARGIN = 2
SENTINEL = -6.02214076e23


class RedZone:
    def __init__(self, shape, dtype=float, poison=np.nan, fill=None):
        self.shape = tuple(shape)
        big = tuple(s + 2 * MARGIN for s in self.shape)
        self.buf = np.full(big, poison, dtype=dtype)
        self.inner = tuple(slice(MARGIN, MARGIN + s) for s in self.shape)
        self.view = self.buf[self.inner]
        if fill is not None:
            self.view[...] = fill
        self._snap = None

    def snapshot(self):
        self._snap = self.buf.copy()

    def margins_intact(self) -> bool:
        """Margins bit-identical to the snapshot."""
        mask = np.ones(self.buf.shape, dtype=bool)
        mask[self.inner] = False
        a = self.buf[mask].view(np.uint8) if self.buf.dtype != object else self.buf[mask]
        b = self._snap[mask].view(np.uint8)
        return a.tobytes() == b.tobytes()

    def unchanged(self) -> bool:
        """Whole buffer (interior and margins) bit-identical to the snapshot."""
        return self.buf.tobytes() == self._snap.tobytes()


def call_kernel(kernel, data_full: np.ndarray, out_shape, out_dtype=None):
    """Run ``kernel(data_full, out)`` on red-zoned copies.

    Returns ``(out_copy, problems)`` where problems is a list of strings.
    """
    out_dtype = out_dtype or np.result_type(data_full.dtype, float)
    rin = RedZone(data_full.shape, dtype=data_full.dtype, poison=np.nan)
    rin.view[...] = data_full
    rout = RedZone(out_shape, dtype=out_dtype, poison=SENTINEL, fill=SENTINEL / 3)
    rin.snapshot()
    rout.snapshot()
    kernel(rin.view, rout.view)
    problems = []
    if not rin.unchanged():
        problems.append("kernel modified its input array or memory next to it")
    if not rout.margins_intact():
        problems.append("kernel wrote outside its output array")
    out = rout.view.copy()
    if np.isnan(out).any() and not np.isnan(data_full).any():
        problems.append("NaN poison from outside the input array leaked into the result (out-of-bounds read)")
    if (out == SENTINEL / 3).any():
        problems.append("kernel left output cells unwritten")
    return out, problems
