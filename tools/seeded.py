#!/venv/bin/python
"""Run the checks against the changes written by independent sub-agents.

usage: tools/seeded.py [--tier quick] [--in-repo] [--json out] [<id>...]

Every change lives in seeded/<id>/ as ``patch.diff`` (a git diff against /repo's HEAD),
a demonstration script (``meta.json: demo``) and ``meta.json`` (property, what the change
needs to manifest, what was run).  For each selected change

  1. a scratch git worktree of /repo is created under $TMPDIR, the patch is applied there,
  2. the demonstration is run against the scratch tree (must fail) and against /repo itself
     (must pass),
  3. the checks listed in ``meta.json: checks`` (default: the property's own check) are run
     with ``VERIF_REPO`` pointing at the scratch tree and ``--no-evidence``; expected exit 1,
  4. the worktree is removed.

With ``--in-repo`` step 3 instead applies the patch to /repo (``git -C /repo apply``), runs the
checks against /repo and undoes it straight afterwards (``git -C /repo checkout -- .``); this
refuses to start when /repo has uncommitted changes.  Nothing is ever committed to /repo.
"""
from __future__ import annotations

import argparse
import json
import os
import subprocess
import sys
import tempfile
import time
from pathlib import Path

VERIF = Path(__file__).resolve().parent.parent
REPO = Path("/repo")
PY = "/venv/bin/python"


def sh(cmd, **kw):
    return subprocess.run(cmd, stdout=subprocess.PIPE, stderr=subprocess.STDOUT, text=True, **kw)


def run_demo(demo: Path, tree: Path, timeout=900) -> int:
    env = dict(os.environ, PYTHONPATH=str(tree), PYTHONHASHSEED="0", NUMBA_CACHE_DIR=str(tree / ".numba_cache"))
    try:
        return sh([PY, str(demo)], env=env, cwd=str(tree), timeout=timeout).returncode
    except subprocess.TimeoutExpired:
        return -9


def run_checks(meta: dict, tree: Path, tier: str) -> dict:
    res = {}
    for prop in meta.get("checks") or [meta["property"]]:
        env = dict(os.environ, VERIF_REPO=str(tree))
        env.update(meta.get("env", {}))
        t0 = time.time()
        p = sh([str(VERIF / "check"), prop, "--tier", tier, "--no-evidence"], env=env)
        lines = p.stdout.splitlines()
        res[prop] = {"exit": p.returncode, "wall": round(time.time() - t0, 1),
                     "what": [l.strip() for l in lines if l.strip().startswith("what:")][:2],
                     "tail": lines[-3:] if p.returncode not in (0, 1) else []}
    return res


def one(sid: str, tier: str, in_repo: bool, run_tests: bool = False) -> dict:
    d = VERIF / "seeded" / sid
    meta = json.loads((d / "meta.json").read_text())
    demo = d / meta["demo"]
    out = {"id": sid, "property": meta["property"]}
    tmp = Path(tempfile.mkdtemp(prefix=f"seeded_{sid}_"))
    wt = tmp / "wt"
    try:
        r = sh(["git", "-C", str(REPO), "worktree", "add", "--detach", str(wt)])
        if r.returncode:
            return dict(out, status="worktree-failed", tail=r.stdout[-300:])
        r = sh(["git", "-C", str(wt), "apply", str(d / "patch.diff")])
        if r.returncode:
            return dict(out, status="patch-does-not-apply", tail=r.stdout[-300:])
        out["demo_with_change"] = run_demo(demo, wt)
        if run_tests and meta.get("tests"):
            env = dict(os.environ, PYTHONPATH=str(wt), PYTHONHASHSEED="0")
            r = sh([PY, "-m", "pytest", "-q", "-p", "no:cacheprovider", "-n", "8", *meta["tests"]], env=env, cwd=str(wt))
            out["tests_exit"] = r.returncode
            out["tests_tail"] = r.stdout.strip().splitlines()[-1:]
        out["demo_without_change"] = run_demo(demo, REPO)
        if in_repo:
            if sh(["git", "-C", str(REPO), "status", "--porcelain", "--untracked-files=no"]).stdout.strip():
                return dict(out, status="repo-dirty")
            try:
                sh(["git", "-C", str(REPO), "apply", str(d / "patch.diff")])
                out["checks"] = run_checks(meta, REPO, tier)
            finally:
                sh(["git", "-C", str(REPO), "checkout", "--", "."])
        else:
            out["checks"] = run_checks(meta, wt, tier)
        return out
    finally:
        sh(["git", "-C", str(REPO), "worktree", "remove", "--force", str(wt)])
        sh(["rm", "-rf", str(tmp)])
        sh(["git", "-C", str(REPO), "worktree", "prune"])


def main() -> int:
    ap = argparse.ArgumentParser()
    ap.add_argument("ids", nargs="*")
    ap.add_argument("--tier", default="quick")
    ap.add_argument("--in-repo", action="store_true")
    ap.add_argument("--json", default=None)
    ap.add_argument("--tests", action="store_true", help="also run meta.json: tests (pytest paths) on the changed tree")
    args = ap.parse_args()
    ids = args.ids or sorted(p.name for p in (VERIF / "seeded").iterdir() if (p / "meta.json").exists())
    missed = 0
    for sid in ids:
        r = one(sid, args.tier, args.in_repo, args.tests)
        if "checks" not in r:
            print(json.dumps(r))
            missed += 1
            continue
        own = r["checks"][r["property"]] if r["property"] in r["checks"] else next(iter(r["checks"].values()))
        caught = any(c["exit"] == 1 for c in r["checks"].values())
        demo_ok = r["demo_with_change"] not in (0, -9) and r["demo_without_change"] == 0
        missed += not caught
        print(f"{'CAUGHT' if caught else 'MISSED'} {sid} [{r['property']}] demo(with/without)="
              f"{r['demo_with_change']}/{r['demo_without_change']}{'' if demo_ok else ' DEMO-UNCONFIRMED'} "
              + " ".join(f"{p}:exit={c['exit']},{c['wall']}s" for p, c in r["checks"].items()))
        if "tests_exit" in r:
            print(f"     existing tests on the changed tree: exit={r['tests_exit']} {r['tests_tail']}")
        for p, c in r["checks"].items():
            for w in c["what"][:1]:
                print(f"     {p}", w[:220])
            for l in c["tail"]:
                print("    |", l[:200])
        if args.json:
            try:
                allres = json.loads(Path(args.json).read_text())
            except Exception:
                allres = {}
            allres[sid] = {"property": r["property"], "caught": caught, "tier": args.tier, "in_repo": args.in_repo,
                           "demo_with_change": r["demo_with_change"], "demo_without_change": r["demo_without_change"], "tests_exit": r.get("tests_exit"),
                           "checks": {p: {"exit": c["exit"], "what": c["what"][:1]} for p, c in r["checks"].items()}}
            Path(args.json).write_text(json.dumps(allres, indent=1, ensure_ascii=False))
    return 1 if missed else 0


if __name__ == "__main__":
    sys.exit(main())
