#!/usr/bin/env python3
"""Regenerate MANIFEST.json from the table below; a check is listed only if its module
exists (vlib/checks/cNN.py), otherwise the property goes to not_applicable with the reason
that it is not built yet.  Validates the result against /root/.vp/MANIFEST.schema.json when
jsonschema is importable."""
from __future__ import annotations

import json
import subprocess
from pathlib import Path

VERIF = Path(__file__).resolve().parent.parent

# id: (category, technique, level text, level note, design ref)
TABLE = {
    "C01": ("exploration", "stencil extraction by unit impulses vs independent dense stencil model; grid-refinement order monitor vs sympy continuum oracle; red-zone buffers + NUMBA_BOUNDSCHECK",
            "Every registered operator kernel of every grid class is applied to all unit impulses of the padded array (complete observed linear map) and compared entry by entry with an independently written matrix of the documented stencil; convergence orders are measured on three resolutions against closed-form continuum values. The map comparison carries the for-all-inputs weight for the linear operators (a linear map is decided by its action on a basis); orders are empirical.",
            "Trusted: the harness' own stencil/continuum models (written from the documentation), numpy/sympy. Shapes <= 8 cells per axis for extraction; JIT code observed on a representative slice, the full cross product in NUMBA_DISABLE_JIT mode (same kernel source).", "§4 C01"),
    "C02": ("exploration", "defining-equation monitor on the padded array after the interpreted and the compiled ghost-cell setter; sentinel-filled ghost cells detect stray writes",
            "For an enumerated space of (axes, axis, side, BC kind/alias, rank, normal flag, value format, specification format) the padded array is observed after set_ghost_cells / the numba setter and every face cell is checked against the defining equation with an independent expression oracle; every entry that must not change is compared bit for bit with its sentinel.",
            "Trusted: own BC parser/model and expression evaluator. Shapes <= 5 per axis; compiled setters on a covering slice.", "§4 C02"),
    "C03": ("exploration", "differential monitoring of all public routes (field method, make_operator per backend, no-bc kernel after set_ghost_cells, compiled vs interpreted setter, sparse matrix, out=, serial vs multi-threaded under varied thread counts/chunk sizes)",
            "All routes are executed on the same generated (grid, field, operator, BC) and compared pairwise within a derived round-off budget (bit-identical for out= and thread schedules).",
            "Thread schedules are those the OpenMP runtime produces for the thread counts/chunk sizes tried; not all interleavings. Trusted: round-off budget model.", "§4 C03"),
    "C04": ("exploration", "history monitoring: random request histories in one interpreter vs fresh-interpreter evaluation of each request; sys.monitoring observation of the cache wrapper for key collisions; rebinding probes for cached field helpers",
            "Histories of operator/interpolator/rate/solve requests with deliberately colliding attributes are executed in one process; every result must equal the value the same request gives in a fresh interpreter, and no two cache events with the same key may have different canonical argument descriptions.",
            "Reach is the request pool: a collision between configurations never both in the pool is not seen. Global configuration fixed within a history (as the statement says).", "§4 C04"),
    "C05": ("exploration", "conservation monitor: volume-weighted sums of operator outputs and per-step integral tracking in simulations, with exact shell-volume cross-check",
            "Volume-weighted sums of the discrete Laplacian/divergence are observed for generated fields on all grid classes and the integral is tracked after every step of diffusion/Cahn-Hilliard runs for all solvers; both must vanish/stay constant within a derived round-off budget.",
            "Trusted: round-off budget; exact volume formulas of the harness.", "§4 C05"),
    "C06": ("exploration", "probe-PDE stage log (numpy and numba objmode callbacks) vs 50-digit amplification-factor models of each scheme",
            "A probe equation du/dt=a*u+f(t) records every right-hand-side evaluation (time, state checksum); final states are compared with mpmath models of the schemes, stage times with the schemes' patterns, adaptive runs with t_end and the steps*tolerance bound, numpy vs numba steppers with each other.",
            "Trusted: mpmath, own scheme models. Grids of 1-3 cells (schemes act per cell).", "§4 C06"),
    "C07": ("exploration", "recording trackers + probe PDE under generated tracker schedules; exact-rational controller model; bit comparison with tracker-free runs",
            "Runs with 0-4 read-only trackers of all interrupt kinds are compared with the tracker-free run (bit-identical for autonomous rates) and with an exact model of step/time accounting; the caller's state is byte-compared before/after.",
            "Trusted: Fraction model of the controller. Tracker kinds limited to read-only recording trackers.", "§4 C07"),
    "C08": ("fault_enumeration", "fault enumeration of StopIteration/FinishedSimulation over all (tracker, k-th call) points with recording trackers; offline checker over the call logs",
            "For generated runs every (tracker index, call index) is used once as the point where a stop is raised; the logs of all trackers are checked offline for order, lattice membership, exactly-once service of scheduled times, service of co-due trackers, final time/state/reason and finalisation.",
            "Trusted: offline checker; schedules generated, not exhaustive in (dt, range).", "§4 C08"),
    "C09": ("exploration", "online oracle over initialize/next answers with exact-rational lattice models under generated non-decreasing query sequences",
            "Each deterministic interrupt class is queried with sequences that hit scheduled times exactly, one ulp before/after, inside gaps and far beyond; every answer is judged for (A) not earlier than the query, (B) strictly later than the previous answer, (C) membership of the defining set / first not-yet-passed element, (D) inf forever once exhausted.",
            "Well-conditioned parameter regime only (gap >> ulp of the times involved); RealtimeInterrupts excluded by the statement.", "§4 C09"),
    "C10": ("translation_validation", "differential monitoring: interpreted rate vs compiled rate (numpy and numba) vs expression-PDE built from the class's own text, on generated equations, grids, BC assignments and states",
            "Each generated equation instance is a program; its three realisations are executed on the same state and compared within derived budgets.", "Trusted: budgets; the text route is compared only where the text denotes the same boundary-value problem.", "§4 C10"),
    "C11": ("translation_validation", "independent ast+mpmath evaluator of the expression text vs numpy function, numba function, field construction and symbolic derivatives on generated programs",
            "Seeded grammar programs are compiled through every public route and evaluated at generated arguments; values are judged against an evaluator that never touches sympy, only where the formula is well-conditioned.",
            "Trusted: own evaluator, mpmath. Max/Min excluded; erf on numba excluded (optional dependency absent).", "§4 C11"),
    "C12": ("exploration", "exact-formula and round-trip monitors on geometry and coordinate API for generated grids and points",
            "Cell centres/volumes/integrals are compared with exact formulas; transforms, containment, normalisation and distances are checked for the algebraic laws of the statement on generated points (inside, faces, ±ulp, far outside, batches).",
            "Trusted: exact formulas of the harness.", "§4 C12"),
    "C13": ("exploration", "stochastic step model driven by an independent generator with the same seed; bitwise reproducibility and generator-consumption probes; moment monitor for the compiled backend",
            "Seeded runs on the numpy backend are replayed by an independent Euler-Maruyama/Milstein model; compiled-backend increments are judged by 6-sigma moment bounds.",
            "Trusted: numpy Generator stream semantics; model written from the documentation.", "§4 C13"),
    "C14": ("exploration", "round-trip monitor over generated grids, fields and collections (state dict, JSON, copy, deepcopy, pickle, from_data)",
            "Every reconstruction route is executed and compared attribute by attribute (class, bounds incl. inner radius, shape, periodicity, volumes, labels, dtype, data bytes).",
            "Trusted: attribute list taken from the statement.", "§4 C14"),
    "C15": ("exploration", "history monitor with alias model (union-find over handles), np.shares_memory and write probes after every operation; structural invariants on fields",
            "Random histories of field/collection operations; after each the observed aliasing relation and the effect of write probes must equal the documented alias model; operands/ghost cells are byte-compared.",
            "Trusted: alias model written from the docs.", "§4 C15"),
    "C16": ("exploration", "interpolation/insertion reference model on generated points incl. centres, faces, seams, ±eps; red-zoned calls; compiled vs interpreted",
            "Observed interpolated values and integral changes are compared with an independent multilinear model and with the amount inserted.",
            "Trusted: own model; points within 1e-12 of the boundary excluded as the statement says.", "§4 C16"),
    "C17": ("exploration", "enumeration of all admissible decompositions of small grids; tiling model; serial MPI emulation with a logging mailbox; exactly-once message checker",
            "All decompositions of generated small grids are built; tiling, split/combine identity, neighbour symmetry and operator equivalence (through emulated ghost exchange) are checked; the message log is checked for exactly-once delivery.",
            "Real MPI transport is not exercised (not installed); emulation replaces mpi_send/mpi_recv only.", "§4 C17"),
    "C18": ("exploration", "residual monitor: solve, feed back into the discrete Laplacian, compare with rhs; discrete compatibility construction for singular problems; matrix-route cross-check",
            "Generated problems on all grid classes and BC kinds; residual must be within solver accuracy; incompatible problems must raise.",
            "Trusted: solver tolerance from the docs (1e-5) with a 10x margin.", "§4 C18"),
    "C19": ("exploration", "basis monitor (orthonormality, handedness, Jacobian) and component-order monitor through all public routes against continuum vectors",
            "Local bases of all six coordinate systems are compared with a finite-difference Jacobian; one geometric vector field is pushed through construction, by-name access, operators, dot/outer and Cartesian conversion and must stay the same vector.",
            "Known finding F8 (cylindrical vector conversion order) is matched by mechanism.", "§4 C19"),
    "C20": ("exploration", "history monitor against a sequential storage model with write probes for aliasing",
            "Random histories of storage operations in all write modes; after each operation times and frame bytes must equal the model's; derived views are compared with the model's projection.",
            "Trusted: 40-line sequential model.", "§4 C20"),
}


def main() -> None:
    props = [json.loads(l) for l in (VERIF / "properties.jsonl").read_text().splitlines() if l.strip()]
    checks, na = [], []
    for p in props:
        pid = p["id"]
        cat, technique, text, note, ref = TABLE[pid]
        if (VERIF / "vlib" / "checks" / f"{pid.lower()}.py").exists():
            checks.append({
                "property_id": pid,
                "quick_cmd": f"./check {pid} --tier quick",
                "thorough_cmd": f"./check {pid} --tier thorough",
                "evidence_file": f"evidence/{pid}.json",
                "replay_cmd_template": f"./check {pid} --replay {{path}}",
                "engine": "vlib-runner",
                "level_claimed": {"category": cat, "text": text, "design_ref": ref},
                "level_note": note,
                "technique": technique,
            })
        else:
            na.append({"property_id": pid, "reason": "runtime monitor designed (DESIGN.md " + ref + ") but not built yet; not claimed until its check exists and is silent on the unchanged tree"})
    try:
        fixes = subprocess.run(["git", "-C", "/repo", "log", "--format=%h %s", "fb555f1..HEAD"],
                               capture_output=True, text=True).stdout.strip().splitlines()
    except Exception:
        fixes = []
    manifest = {
        "version": 1,
        "setup_cmd": "/venv/bin/python tools/setup_check.py",
        "hooks": {
            "guard": "PY_PDE_VERIF",
            "enable": "no source hooks exist: all monitors attach at public boundaries, through sys.monitoring, or by wrapping from the harness; checks export PY_PDE_VERIF=1 and put VERIF_REPO (default /repo) first on PYTHONPATH so fresh interpreters always import the current working tree",
            "baseline_off_cmd": "/venv/bin/python tools/baseline_off.py",
            "source_commits": [],
            "add_only": True,
        },
        "engines": [
            {"name": "vlib-runner", "path": "vlib/runner.py",
             "serves_properties": [c["property_id"] for c in checks],
             "kind_free_text": "shard planner + subprocess pool (one fresh interpreter per shard, modes jit / NUMBA_DISABLE_JIT / NUMBA_BOUNDSCHECK / multithreaded) + merge + three-valued verdicts; per-property monitors and reference models in vlib/checks, vlib/models, vlib/monitors"},
        ],
        "checks": checks,
        "not_applicable": na,
        "notes": "Technique family: runtime monitoring. Compiler sanitizers do not apply (no C/C++ in the repository; numba JIT code cannot be instrumented by clang) and are replaced by NUMBA_BOUNDSCHECK, red-zone buffers and differential thread-schedule runs (DESIGN.md §1.2). Exit codes: 0 held, 1 violation, 2 inconclusive. Unguarded fix: commits in /repo: " + "; ".join(fixes),
    }
    (VERIF / "MANIFEST.json").write_text(json.dumps(manifest, indent=1) + "\n")
    try:
        import jsonschema

        schema = json.load(open("/root/.vp/MANIFEST.schema.json"))
        jsonschema.validate(manifest, schema)
        print("MANIFEST.json valid;", len(checks), "checks,", len(na), "not claimed")
    except ImportError:
        print("MANIFEST.json written (jsonschema not importable here)")


if __name__ == "__main__":
    main()
