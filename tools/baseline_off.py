#!/venv/bin/python
"""Run the repository's own test-suite with every verification guard OFF and compare
the per-test outcomes with the stable baseline recorded in BASELINE.json.

usage: tools/baseline_off.py [--jobs N] [--baseline /root/.vp/BASELINE.json]
exit 0: every stable-pass test of the baseline passed; exit 1 otherwise.
"""
from __future__ import annotations

import argparse
import json
import os
import subprocess
import sys
import tempfile
import xml.etree.ElementTree as ET


def main() -> int:
    ap = argparse.ArgumentParser()
    ap.add_argument("--jobs", type=int, default=min(16, os.cpu_count() or 1))
    ap.add_argument("--baseline", default="/root/.vp/BASELINE.json")
    ap.add_argument("--repo", default=os.environ.get("VERIF_REPO", "/repo"))
    args = ap.parse_args()

    env = dict(os.environ)
    for key in ("PY_PDE_VERIF", "NUMBA_DISABLE_JIT", "NUMBA_BOUNDSCHECK", "PYTHONPATH"):
        env.pop(key, None)  # guard off, default modes
    with tempfile.TemporaryDirectory(prefix="baseline_off_") as tmp:
        xml = os.path.join(tmp, "junit.xml")
        cmd = [
            "/venv/bin/python", "-m", "pytest", "-q", "-p", "no:cacheprovider",
            "--timeout=900", "--continue-on-collection-errors", f"--junitxml={xml}",
            "-n", str(args.jobs),
        ]
        proc = subprocess.run(cmd, cwd=args.repo, env=env, stdout=subprocess.PIPE,
                              stderr=subprocess.STDOUT, text=True)
        tail = "\n".join(proc.stdout.splitlines()[-5:])
        print(tail)
        if not os.path.exists(xml):
            print("baseline_off: no junit file produced")
            return 1
        outcomes = {}
        for case in ET.parse(xml).getroot().iter("testcase"):
            name = f"{case.get('classname')}::{case.get('name')}"
            bad = any(child.tag in ("failure", "error") for child in case)
            skipped = any(child.tag == "skipped" for child in case)
            outcomes[name] = "fail" if bad else ("skip" if skipped else "pass")
    try:
        stable = json.load(open(args.baseline))["stable_pass"]
    except (OSError, KeyError):
        stable = None
    failed = sorted(n for n, o in outcomes.items() if o == "fail")
    if stable is None:
        print(f"baseline_off: no baseline file, {len(outcomes)} tests, {len(failed)} failed")
        return 1 if failed else 0
    missing = [n for n in stable if outcomes.get(n) != "pass"]
    npass = sum(o == "pass" for o in outcomes.values())
    print(f"baseline_off: {npass} passed, {len(failed)} failed, "
          f"{len(stable) - len(missing)}/{len(stable)} stable-pass tests of the baseline passed")
    for n in missing[:50]:
        print("  NOT PASSING:", n, outcomes.get(n, "absent"))
    return 1 if missing or failed else 0


if __name__ == "__main__":
    sys.exit(main())
