#!/venv/bin/python
"""Validate monitors against seeded defects.

usage: tools/mutant.py [--tier quick] [--keep] <mutant-id>... | --all | --property Cxx
Mutants are listed in vlib/mutants/mutants.json:
  {"id": ..., "property": "C09", "file": "pde/...", "old": "...", "new": "...", "note": ...}
For each mutant a scratch copy of the package is created under $TMPDIR (never in /repo),
the edit is applied, the property's check is run with VERIF_REPO pointing at the copy and
--no-evidence, and the copy is removed.  Expected outcome: exit code 1 (VIOLATION).
"""
from __future__ import annotations

import argparse
import json
import os
import shutil
import subprocess
import sys
import tempfile
import time
from pathlib import Path

VERIF = Path(__file__).resolve().parent.parent
REPO = Path(os.environ.get("VERIF_REPO_SRC", "/repo"))


def run_mutant(m: dict, tier: str, extra_checks=()) -> dict:
    tmp = Path(tempfile.mkdtemp(prefix="mutant_"))
    try:
        shutil.copytree(REPO / "pde", tmp / "pde", ignore=shutil.ignore_patterns("__pycache__"))
        edits = m.get("edits") or [{"file": m["file"], "old": m["old"], "new": m["new"]}]
        for e in edits:
            path = tmp / e["file"]
            text = path.read_text()
            if text.count(e["old"]) < 1:
                return {"id": m["id"], "status": "edit-does-not-apply", "file": e["file"]}
            path.write_text(text.replace(e["old"], e["new"], e.get("count", 1)))
        out = {"id": m["id"], "property": m["property"], "results": {}}
        for prop in [m["property"], *m.get("also", []), *extra_checks]:
            env = dict(os.environ, VERIF_REPO=str(tmp))
            t0 = time.time()
            proc = subprocess.run([str(VERIF / "check"), prop, "--tier", tier, "--no-evidence"],
                                  env=env, stdout=subprocess.PIPE, stderr=subprocess.STDOUT, text=True)
            lines = proc.stdout.splitlines()
            what = [l.strip() for l in lines if l.strip().startswith("what:")][:2]
            out["results"][prop] = {"exit": proc.returncode, "wall": round(time.time() - t0, 1),
                                    "what": what,
                                    "tail": lines[-3:] if proc.returncode not in (0, 1) else []}
        return out
    finally:
        shutil.rmtree(tmp, ignore_errors=True)


def main() -> int:
    ap = argparse.ArgumentParser()
    ap.add_argument("ids", nargs="*")
    ap.add_argument("--all", action="store_true")
    ap.add_argument("--property")
    ap.add_argument("--tier", default="quick")
    ap.add_argument("--json", default=None, help="append machine-readable results to this file")
    args = ap.parse_args()
    mutants = json.loads((VERIF / "vlib/mutants/mutants.json").read_text())
    sel = [m for m in mutants if args.all or m["id"] in args.ids or (args.property and m["property"] == args.property)]
    missed = 0
    for m in sel:
        r = run_mutant(m, args.tier)
        if "results" not in r:
            print(json.dumps(r))
            missed += 1
            continue
        main_res = r["results"][m["property"]]
        caught = main_res["exit"] == 1
        missed += not caught
        print(f"{'CAUGHT' if caught else 'MISSED'} {m['id']} [{m['property']}] exit={main_res['exit']} "
              f"{main_res['wall']}s :: {m.get('note', '')}")
        for w in main_res["what"][:1]:
            print("    ", w[:200])
        for prop, rr in r["results"].items():
            if prop != m["property"]:
                print(f"     also {prop}: exit={rr['exit']}")
        for l in main_res["tail"]:
            print("    |", l[:200])
        if args.json:
            try:
                allres = json.loads(Path(args.json).read_text())
            except Exception:
                allres = {}
            allres[m["id"]] = {"property": m["property"], "caught": caught, "note": m.get("note", ""), "what": main_res["what"][:1],
                               "also": {p: rr["exit"] == 1 for p, rr in r["results"].items() if p != m["property"]}, "tier": args.tier}
            Path(args.json).write_text(json.dumps(allres, indent=1, ensure_ascii=False))
    return 1 if missed else 0


if __name__ == "__main__":
    sys.exit(main())
