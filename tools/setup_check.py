#!/venv/bin/python
"""MANIFEST.setup_cmd: verify offline that everything the checks need is importable.
Nothing has to be built: the framework is pure Python and uses only /venv's packages."""
import importlib
import os
import sys

sys.path.insert(0, os.path.dirname(os.path.dirname(os.path.abspath(__file__))))
missing = []
for name in ("numpy", "scipy", "sympy", "mpmath", "numba", "pde", "vlib.runner"):
    try:
        importlib.import_module(name)
    except Exception as exc:  # pragma: no cover
        missing.append(f"{name}: {exc}")
for d in ("evidence", "replays"):
    os.makedirs(os.path.join(os.path.dirname(os.path.dirname(os.path.abspath(__file__))), d), exist_ok=True)
if missing:
    print("setup: missing modules:", *missing, sep="\n  ")
    sys.exit(1)
import pde

print("setup ok: pde from", os.path.dirname(pde.__file__), "python", sys.version.split()[0])
